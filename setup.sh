#!/bin/sh
# Build the framework from files on disk only (offline): hooked s4 binary, harness, and syntax-check of all specs.
set -e
cd "$(dirname "$0")"
export CARGO_NET_OFFLINE=true
python3 - <<'PY'
import sys
sys.path.insert(0, '.')
from vlib import common
import os, glob
common.build_s4()
if os.path.exists(os.path.join(common.HARNESS_DIR, 'Cargo.toml')):
    common.build_harness()
bad = 0
for f in sorted(glob.glob('spec/*.tla')):
    ok, out = common.sany(os.path.basename(f)[:-4])
    if not ok:
        print(out[-2000:]); bad += 1
sys.exit(1 if bad else 0)
PY
echo setup ok
