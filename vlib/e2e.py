"""End-to-end case execution shared by several checks: materialise files, run the hooked binary under a
schedule, compare stdout with the expectation, and produce replayable records."""
import os
import shutil

from . import common
from .common import run_s4, b2j, j2b


class Case:
    """files: {relative name: bytes}; argv: list (paths relative to the case dir); expected: bytes or None."""

    def __init__(self, files, argv, expected=None, env=None, plan=None, stdin=None, note=None, mtimes=None,
                 tz_args=True, timeout=30):
        self.files, self.argv, self.expected = files, argv, expected
        self.env, self.plan, self.stdin, self.note = env or {}, plan, stdin, note or {}
        self.mtimes = mtimes or {}
        self.tz_args = tz_args
        self.timeout = timeout

    def materialise(self, d):
        os.makedirs(d, exist_ok=True)
        for name, data in self.files.items():
            p = os.path.join(d, name)
            os.makedirs(os.path.dirname(p), exist_ok=True)
            if data is None:
                os.makedirs(p, exist_ok=True)
                continue
            with open(p, "wb") as f:
                f.write(data)
            if name in self.mtimes:
                os.utime(p, (self.mtimes[name], self.mtimes[name]))

    def run(self, d, trace=False, tmpdir=None):
        self.materialise(d)
        return run_s4(self.argv, cwd=d, env=self.env, plan=self.plan, trace=trace, stdin=self.stdin,
                      timeout=self.timeout, tz_args=self.tz_args, tmpdir=tmpdir)

    def replay_record(self, run=None):
        rec = {"kind": "e2e", "files": {k: (None if v is None else {"hex": v.hex()}) for k, v in self.files.items()},
               "argv": self.argv, "env": self.env, "plan": self.plan, "note": self.note, "mtimes": self.mtimes,
               "tz_args": self.tz_args,
               "stdin": None if self.stdin is None else {"hex": self.stdin.hex()},
               "expected_stdout": None if self.expected is None else {"hex": self.expected.hex()}}
        if run is not None:
            rec["observed"] = {"rc": run.rc, "stdout": b2j(run.out[:20000]), "stderr": b2j(run.err[-4000:]),
                               "timed_out": run.timed_out}
        return rec

    @staticmethod
    def from_record(rec):
        files = {k: (None if v is None else bytes.fromhex(v["hex"])) for k, v in rec["files"].items()}
        exp = rec.get("expected_stdout")
        stdin = rec.get("stdin")
        return Case(files, rec["argv"], None if exp is None else bytes.fromhex(exp["hex"]), rec.get("env"),
                    [tuple(x) for x in rec["plan"]] if rec.get("plan") else None,
                    None if stdin is None else bytes.fromhex(stdin["hex"]), rec.get("note"), rec.get("mtimes"),
                    rec.get("tz_args", True))


def replay(rec):
    """Generic replay of an e2e record: exit 1 when stdout still differs from the expectation (or crashes)."""
    common.build_s4()
    case = Case.from_record(rec)
    with common.Scratch("replay") as sc:
        r = case.run(os.path.join(sc, "c"))
    ok = True
    if case.expected is not None and r.out != case.expected:
        ok = False
    if r.crashed:
        ok = False
    print("replay: rc=%s stdout_equal=%s crashed=%s" % (r.rc, case.expected is None or r.out == case.expected, r.crashed))
    if not ok:
        print("VIOLATION property=%s replay=(replayed)" % rec.get("property"))
    return 0 if ok else 1


def first_diff(a, b):
    n = min(len(a), len(b))
    for i in range(n):
        if a[i] != b[i]:
            return i
    return n if len(a) != len(b) else -1
