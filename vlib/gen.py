"""Generators: text logs with attributable messages, containers, record files."""
import bz2
import calendar
import gzip
import io
import lzma
import os
import struct
import subprocess
import tarfile
import time

BASE = 1704067200  # 2024-01-01T00:00:00Z


def fmt_ts(sec, nanos=0, offset_min=None, frac=0, sep="T"):
    """ISO-8601 timestamp of the instant (sec, nanos) rendered at UTC offset offset_min (None: no zone)."""
    off = offset_min or 0
    t = time.gmtime(sec + off * 60)
    s = "%04d-%02d-%02d%s%02d:%02d:%02d" % (t.tm_year, t.tm_mon, t.tm_mday, sep, t.tm_hour, t.tm_min, t.tm_sec)
    if frac:
        s += "." + ("%09d" % nanos)[:frac]
    if offset_min is not None:
        sign = "+" if off >= 0 else "-"
        a = abs(off)
        s += "%s%02d:%02d" % (sign, a // 60, a % 60)
    return s


# the same window spelled in different ways: zone-less under -t +00:00; with an explicit numeric offset on the value;
# zone-less under a non-UTC --tz-offset (name, offset minutes, offset written on the value?)
WINDOW_SPELLINGS = [("utc-naive", 0, False), ("+01:00", 60, True), ("-08:00", -480, True), ("+05:30", 330, True),
                    ("t-08:00", -480, False), ("t+05:30", 330, False), ("t+13:45", 825, False)]


def window_argv(a, b, spelling, frac=6):
    """argv for the window [a, b] (each (sec, nanos) or None) in the given spelling, INCLUDING the --tz-offset option
    (call run_s4 with tz_args=False).  The instants are the same in every spelling."""
    name, off, explicit = spelling
    sign = "+" if off >= 0 else "-"
    argv = ["--tz-offset=%s%02d:%02d" % (sign, abs(off) // 60, abs(off) % 60)] if not explicit else ["--tz-offset=+00:00"]
    for opt, v in (("-a", a), ("-b", b)):
        if v is None:
            continue
        if explicit:
            argv += [opt, fmt_ts(v[0], v[1], off, frac)]
        else:
            argv += [opt, fmt_ts(v[0] + off * 60, v[1], None, frac)]
    return argv


def ts_fields(sec, offset_min=0):
    t = time.gmtime(sec + offset_min * 60)
    return t


class Msg:
    """One message of a text source: instant, bytes (head line + continuation lines)."""

    def __init__(self, src, idx, sec, nanos, data):
        self.src, self.idx, self.sec, self.nanos, self.data = src, idx, sec, nanos, data

    @property
    def key(self):
        return (self.sec, self.nanos)


def text_source(src, instants, offset_min=0, frac=3, pad=0, cont=None, final_newline=True, zone=True):
    """Build a text log: one message per instant (sec, nanos).  Returns (bytes, [Msg]).
    cont: optional function idx -> list of continuation line bodies (bytes, without newline)."""
    msgs = []
    out = []
    for i, (sec, nanos) in enumerate(instants):
        head = fmt_ts(sec, nanos, offset_min if zone else None, frac)
        line = ("%s src=%s idx=%d" % (head, src, i)).encode()
        if pad:
            line += b" " + b"p" * pad
        data = line + b"\n"
        if cont:
            for c in cont(i):
                data += c + b"\n"
        msgs.append(Msg(src, i, sec, nanos, data))
        out.append(data)
    blob = b"".join(out)
    if not final_newline and blob.endswith(b"\n"):
        blob = blob[:-1]
        msgs[-1].data = msgs[-1].data[:-1]
    return blob, msgs


def expected_merge(sources):
    """Stable k-way merge of [[Msg]] (source order = PathId order): at every step the earliest next
    message over all sources, ties to the lower source index.  Independent of the code under test."""
    idx = [0] * len(sources)
    out = []
    while True:
        best = None
        for w, ms in enumerate(sources):
            if idx[w] < len(ms):
                k = ms[idx[w]].key
                if best is None or k < best[0]:
                    best = (k, w)
        if best is None:
            return out
        w = best[1]
        out.append(sources[w][idx[w]])
        idx[w] += 1


# ------------------------------------------------------------------------------------------
# containers


def gz_bytes(data, level=6, mtime=0, name=None):
    buf = io.BytesIO()
    with gzip.GzipFile(filename=name or "", mode="wb", compresslevel=level, fileobj=buf, mtime=mtime) as f:
        f.write(data)
    return buf.getvalue()


def gz_header_fields(data, level=6, mtime=0, name=None, extra=None, comment=None, hcrc=False, ftext=False):
    """gzip member with the optional header fields of RFC 1952 (FEXTRA, FNAME, FCOMMENT, FHCRC, FTEXT), built by hand"""
    import struct
    import zlib
    flg = (1 if ftext else 0) | (2 if hcrc else 0) | (4 if extra is not None else 0) | (8 if name else 0) | (16 if comment is not None else 0)
    hdr = b"\x1f\x8b\x08" + bytes([flg]) + struct.pack("<I", mtime) + b"\x00\x03"
    if extra is not None:
        hdr += struct.pack("<H", len(extra)) + extra
    if name:
        hdr += name.encode("latin-1") + b"\0"
    if comment is not None:
        hdr += comment + b"\0"
    if hcrc:
        hdr += struct.pack("<H", zlib.crc32(hdr) & 0xFFFF)
    co = zlib.compressobj(level, zlib.DEFLATED, -15)
    body = co.compress(data) + co.flush()
    return hdr + body + struct.pack("<II", zlib.crc32(data) & 0xFFFFFFFF, len(data) & 0xFFFFFFFF)


def bz2_bytes(data, level=9):
    return bz2.compress(data, level)


def xz_bytes(data, preset=6, check=lzma.CHECK_CRC64):
    return lzma.compress(data, format=lzma.FORMAT_XZ, preset=preset, check=check)


def xz_blocks_bytes(data, block_size=4096, check="crc32", threads=0):
    """single-stream .xz with several blocks, made by the xz command line tool (python's lzma writes one block); None if
    the tool is not installed"""
    import shutil
    exe = shutil.which("xz")
    if not exe:
        return None
    # (threads > 0: the multi-threaded writer -- the default of current XZ Utils -- records the compressed and uncompressed
    #  size of every block in its block header)
    p = subprocess.run([exe, "-c", "--block-size=%d" % block_size, "--check=" + check] + (["-T%d" % threads] if threads else []), input=data, stdout=subprocess.PIPE,
                       stderr=subprocess.PIPE)
    return p.stdout if p.returncode == 0 and p.stdout else None


def tar_bytes(members, fmt=tarfile.USTAR_FORMAT, mtime=0):
    """members: [(name, bytes)]"""
    buf = io.BytesIO()
    with tarfile.open(fileobj=buf, mode="w", format=fmt) as tf:
        for name, data in members:
            ti = tarfile.TarInfo(name)
            ti.size = len(data)
            ti.mtime = mtime
            tf.addfile(ti, io.BytesIO(data))
    return buf.getvalue()


def lz4_bytes(data, block_id=4, independent=True, content_checksum=False, content_size=False, flush_every=0):
    """LZ4 frame via the harness encoder.  flush_every > 0: blocks end after that many input bytes (a streaming writer)."""
    from . import common
    exe = common.harness_bin("mk_lz4")
    args = [exe, str(block_id), "1" if independent else "0", "1" if content_checksum else "0",
            "1" if content_size else "0", str(flush_every)]
    p = subprocess.run(args, input=data, stdout=subprocess.PIPE, stderr=subprocess.PIPE)
    if p.returncode != 0:
        raise common.ToolError("mk_lz4 failed: " + p.stderr.decode(errors="replace"))
    return p.stdout


def write(path, data):
    os.makedirs(os.path.dirname(path), exist_ok=True)
    with open(path, "wb") as f:
        f.write(data)
    return path


# ------------------------------------------------------------------------------------------
# Linux utmp records (x86_64 glibc `struct utmp`, 384 bytes) -- written from the C layout


UTMP_SZ = 384


def utmp_record(ut_type, pid, line, id_, user, host, sec, usec, session=0, exit_=(0, 0), addr=b"\0" * 16):
    def fix(b, n):
        b = b[:n]
        return b + b"\0" * (n - len(b))
    rec = struct.pack("<hxxi", ut_type, pid)
    rec += fix(line, 32) + fix(id_, 4) + fix(user, 32) + fix(host, 256)
    rec += struct.pack("<hh", *exit_)
    rec += struct.pack("<iii", session, sec, usec)
    rec += fix(addr, 16)
    rec += b"\0" * 20
    assert len(rec) == UTMP_SZ, len(rec)
    return rec
