"""C16: the reader for a file is chosen from its name alone, for every name.

Spec: Classify.tla (written from the documented rules): TLC enumerates every name up to MaxC components over a
vocabulary covering each class, checks the invariance lemmas (inserting numeric / unrecognised components, adding a
compression suffix) and emits each name with its class.  Every abstract name is rendered in several spellings
(lower / UPPER / MiXed case, junk prefixes and suffixes ~ - , ? ; and leading dots) and given to the real
path_to_filetype in-process, in both modes (walked: non-log types are unparsable; named explicitly: read as text).
Arbitrary strings (dots only, empty stem, very long, non-UTF-8 bytes) must classify without panic or hang; a sample
of renamed real files must produce the corresponding kind of output end-to-end."""
import json
import os
import random
import shutil
import subprocess

from . import common, gen, c08
from .common import Reporter, Scratch, ToolError, log, tlc, write_cfg, Raw, REPO

VOCAB_Q = ["wtmp", "utmpx", "lastlog", "pacct", "journal", "evtx", "log", "gz", "xz", "tar", "1", "old", "bin", "messages", "foo"]
VOCAB_T = VOCAB_Q + ["btmp", "utmp", "wtmpx", "btmpx", "lastlogx", "acct", "txt", "gzip", "bz2", "lz4", "xzip", "20230101", "png", "syslog"]
JUNK_L = ["", "~", "-", ",", ".", "..", ";?", ".-"]
JUNK_R = ["", "~", "-", ",", ";", "?", "~~", "-,"]


def spell(word, mode, rng):
    if mode == 0:
        return word
    if mode == 1:
        return word.upper()
    return "".join(c.upper() if rng.random() < 0.5 else c for c in word)


def run(pid, tier, seed):
    rep = Reporter(pid, tier, seed, "model_checking")
    rng = random.Random(seed * 3571 + 16)
    common.build_s4()
    common.build_harness(["classify_replay"])
    exe = common.harness_bin("classify_replay")
    with Scratch(pid) as sc:
        maxc, vocab = (3, VOCAB_Q) if tier == "quick" else (4, VOCAB_Q + ["bz2", "lz4", "acct", "txt", "20230101", "png"])
        cfg = write_cfg(os.path.join(sc, "tlc", "cl.cfg"), {"MaxC": maxc, "Vocab": set(vocab)}, spec="Spec",
                        invariants=["InvarianceInsert", "InvarianceCompress", "Dump"])
        r = tlc("Classify", cfg, os.path.join(sc, "tlc"), workers=1, timeout=1800)
        if r.violated:
            rep.violation("model:Classify:%s" % r.violated, "Classify.tla violates %s" % r.violated,
                          {"kind": "tlc", "cmd": r.cmd, "tail": r.output[-2000:]})
            names = []
        else:
            common.tlc_must_pass(r, "Classify")
            names = common.tla_prints(r.output, "NAME")
        # words of the full vocabulary substituted class-preservingly for the abstract ones
        same_class = {"wtmp": ["wtmp", "utmp", "btmp"], "utmpx": ["utmpx", "wtmpx", "btmpx"], "gz": ["gz", "gzip"],
                      "xz": ["xz", "xzip"], "1": ["1", "20230101", "007", "42"], "old": ["old", "bak", "orig", "backup"],
                      "foo": ["foo", "host", "server1", "access_log", "log_media", "error_log"], "bin": ["bin", "png", "dll", "exe"], "log": ["log", "txt", "text"],
                      "messages": ["messages", "syslog", "dmesg", "kernlog"]}
        lines, meta = [], []
        spellings = 2 if tier == "quick" else 4
        for (_, comps, cls) in names:
            for _ in range(spellings):
                words = [rng.choice(same_class.get(w, [w])) for w in comps]
                # the leading, unrecognised component spelled with a byte that is not UTF-8 (Latin-1 "caf\xe9") in front of a name
                # that has a type word: still unrecognised
                nonutf = comps[0] == "foo" and "foo" not in comps[1:] and cls[0] not in ("text", "unparsable") and rng.random() < 0.5
                if nonutf:
                    words = ["\ue000" if c_ == "foo" else w_ for c_, w_ in zip(comps, words)]
                mode = rng.choice([0, 0, 1, 2])
                s = ".".join(spell(w, mode, rng) for w in words)
                jl, jr = rng.choice(JUNK_L), rng.choice(JUNK_R)
                if nonutf:
                    jl = jr = ""      # (junk trimming works on the name as text; with undecodable bytes only the plain form is claimed)
                if words[0] in ("log", "txt", "text") and len(words) == 1:
                    jl = jl.replace(".", "")
                name = jl + s + jr
                for text in (False, True):
                    want_r, want_a = cls[0], cls[1]
                    if want_r == "unparsable":
                        want_a = "plain" if not text else want_a
                        want_r = "text" if text else "unparsable"
                    if want_r == "tar":
                        pass
                    nb = name.encode().replace("\ue000".encode(), b"caf\xe9")
                    lines.append(json.dumps({"hex": nb.hex(), "text": text}))
                    meta.append((name if not nonutf else repr(nb), comps, want_r, want_a, text))
        # InvarianceInsert applied many times over: numeric / unrecognised components inserted at any position from the
        # second on never change the class -- names as rotation schemes make them (wtmp.2023.01.01.12.00.00.1.old.gz)
        for (_, comps, cls) in (names if tier == "thorough" else rng.sample(names, min(len(names), 400))):
            words = [rng.choice(same_class.get(w, [w])) for w in comps]
            for _ in range(rng.choice([5, 8, 9, 14, 40])):
                words.insert(rng.randrange(1, len(words) + 1), rng.choice(["1", "2023", "01", "12", "00", "old", "bak", "host", "example", "com"]))
            name = ".".join(spell(w, rng.choice([0, 0, 1]), rng) for w in words)
            for text in (False, True):
                want_r, want_a = cls[0], cls[1]
                if want_r == "unparsable":
                    want_a = "plain" if not text else want_a
                    want_r = "text" if text else "unparsable"
                lines.append(json.dumps({"hex": name.encode().hex(), "text": text}))
                meta.append((name, comps, want_r, want_a, text))
        # arbitrary names: termination without panic
        arb = [b".", b"..", b"...", b"....", b"", b".log", b"log.", b"~", b"-~,?;", b"a" * 4096, (b"x." * 2000) + b"gz",
               b"\xff\xfe.log", b"\xc3\x28.wtmp.gz", b"wtmp.\xff", b".gz", b".gz.gz.gz", b"1", b"1.2.3.4", b"tar", b".tar", b"a.tar.gz"]
        for _ in range(200 if tier == "quick" else 100000):
            n = rng.choice([1, 2, 5, 12, 40])
            arb.append(bytes(rng.choice(b"...~-,;?azAZ019gzlogwtmp\xff\x80") for _ in range(n)))
        for a in arb:
            lines.append(json.dumps({"hex": a.hex(), "text": rng.random() < 0.5}))
            meta.append((a, None, None, None, None))
        try:
            p = subprocess.run([exe], input=("\n".join(lines) + "\n").encode(), stdout=subprocess.PIPE, stderr=subprocess.PIPE,
                               timeout=600)
        except subprocess.TimeoutExpired:
            rep.violation("hang", "classification did not terminate within 600 s", {"kind": "classify", "names": len(lines)})
            p = None
        mism = 0
        samples = []
        if p is not None:
            outs = [json.loads(l) for l in p.stdout.decode().splitlines() if l.strip()]
            if len(outs) != len(lines):
                rep.violation("crash", "classify_replay died after %d of %d names: %r" % (len(outs), len(lines), p.stderr[-200:]),
                              {"kind": "classify", "next_name": str(meta[len(outs)][0])[:200]})
            for o, (name, comps, want_r, want_a, text) in zip(outs, meta):
                if o.get("panic"):
                    rep.violation("panic", "path_to_filetype panicked on %r" % (name,), {"kind": "classify", "name": str(name)})
                    continue
                if comps is None:
                    continue
                if (o["r"], o["a"]) != (want_r, want_a):
                    mism += 1
                    sig = "misclassified:%s->%s" % (want_r, o["r"])
                    if name.startswith("..") and want_r == "text" and o["r"] == "unparsable" and not text:
                        sig = "leading-double-dot:text->unparsable"
                    rep.violation(sig,
                                  "%r (abstract %s, explicitly named=%s): expected %s/%s, got %s/%s"
                                  % (name, comps, text, want_r, want_a, o["r"], o["a"]),
                                  {"kind": "classify", "name": name, "abstract": comps, "text": text, "got": o})
                elif len(samples) < 4 and len(comps) >= 3:
                    samples.append({"name": name, "abstract": comps, "class": [want_r, want_a]})
        # end-to-end sample: renamed real files give the corresponding kind of output
        d = os.path.join(sc, "e2e")
        os.makedirs(d)
        ut = b"".join(c08.rec_bytes(i + 1, 1 + i) for i in range(3))
        e2e = [("host.WTMP.1", ut, b"ut_type"), ("archive.20230101.wtmp.gz", gen.gz_bytes(ut), b"ut_type"),
               ("~app.OLD.log", gen.text_source("A", [(gen.BASE, 0)], frac=0)[0], b"src=A"),
               ("SERVER.evtx.bak", open(os.path.join(REPO, "logs/programs/evtx/Microsoft-Windows-Kernel-PnP%4Configuration.evtx"), "rb").read(), b"<EventRecordID>")]
        for name, data, marker in e2e:
            with open(os.path.join(d, name), "wb") as f:
                f.write(data)
            rr = common.run_s4(["--color", "never", name], cwd=d, timeout=60)
            if rr.crashed or marker not in rr.out:
                rep.violation("e2e:wrong-reader", "%s did not produce %s output" % (name, marker),
                              {"kind": "e2e", "name": name, "rc": rr.rc, "stdout_head": rr.out[:200].decode(errors="replace")})
        rep.coverage = {"states": r.distinct, "transitions": r.generated, "traces_validated_against_impl": len(names),
                        "evaluations": len(lines) + len(e2e), "distinct_nontrivial": len({m[0] for m in meta if m[1] and len(m[1]) >= 2}),
                        "rule": "one evaluation = one concrete file name through path_to_filetype (both modes) or one arbitrary byte "
                                "string; non-trivial = rendered from an abstract name with >= 2 components",
                        "samples": samples, "abstract_names": len(names), "arbitrary_names": len(arb), "exhaustive": True,
                        "checker_cmd": r.cmd}
        rep.assumptions = ["names with more than one compression suffix, and bare stems evtx/txt/tar/<compression>/<non-log>/<number>, "
                           "are outside the documented rules and not generated", "vocabulary: one or more words per class, class-preserving "
                           "substitution over the full word lists"]
    return rep.finish()
