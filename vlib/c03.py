"""C03: a datetime window selects exactly the messages inside it (A <= t <= B, both inclusive), order kept.

Spec: BinSearch.tla (transcription of the binary search + window walk vs the declarative Select), checked by TLC
for all small chronological files with ties and every filter placement, including nondeterministic find_sysline
answers for probes that land in continuation lines.
I->S: Probe traces of the real binary search validated against TraceBinSearch.tla.
S->I: generated chronological files (tie groups, multi-line messages, sub-second instants) x windows placed before /
between / exactly on / after instants, A = B x block sizes x plain (binary search) / gz (linear search), in-process
(SyslineReader, SyslogProcessor) and end-to-end through -a / -b in several spellings of the same instants; an event log
(windows on and around every stored-out-of-order record), an accounting file not stored chronologically and a journal
are windowed here as well (ground truth: evtx_dump, generator, journalctl); C08 / C10 / C09 go deeper per kind."""
import json
import os
import random
import subprocess
import time
from concurrent.futures import ThreadPoolExecutor

from . import common, gen
from .common import Reporter, Scratch, ToolError, log, tlc, write_cfg
from .e2e import Case, first_diff


def make_file(rng, nmsgs, frac=0):
    """chronological file with tie groups.  Returns (bytes, [(sec, nanos, bytes, hlen, clen)])"""
    msgs = []
    sec, nanos = gen.BASE + rng.randrange(3), 0
    for i in range(nmsgs):
        step = rng.choice([0, 0, 0, 1, 1, 2, 7])
        if step == 0 and frac and rng.random() < 0.5:
            nanos = min(999_000_000, nanos + rng.choice([0, 1_000_000, 250_000_000]))
        elif step:
            sec += step
            nanos = rng.choice([0, 500_000_000]) if frac else 0
        if frac:
            nanos -= nanos % 10 ** (9 - frac)      # (the instant is what the digits written say)
        # the first two messages are short one-liners so that block-zero analysis accepts the file at every
        # block size >= 64 (that acceptance is C02/C12's subject, not this property's)
        head = gen.fmt_ts(sec, nanos, None, frac).encode() + b" m%d" % i + b" " + b"p" * (rng.choice([0, 1, 7, 30, 90]) if i >= 2 else 0)
        data = head + b"\n"
        hlen = len(data)
        for c in range(rng.choice([0, 0, 0, 1, 3]) if i >= 2 else 0):
            data += b"  cont %d " % c + b"c" * rng.choice([0, 5, 70]) + b"\n"
        msgs.append((sec, nanos, data, hlen, len(data) - hlen))
    return b"".join(m[2] for m in msgs), msgs


def windows(rng, msgs, tier):
    """(A, B) with A/B None or (sec, nanos): before, between, exactly on, after; A = B"""
    inst = sorted({(m[0], m[1]) for m in msgs})
    pts = [None, (inst[0][0] - 5, 0), (inst[-1][0] + 5, 0)]
    for (s, n) in inst:
        pts.append((s, n))
        pts.append((s, n + 1000) if n + 1000 < 10**9 else (s + 1, 0))
        if n >= 1000:
            pts.append((s, n - 1000))
        else:
            pts.append((s - 1, 999_999_000))
    out = []
    for a in pts:
        out.append((a, None))
        out.append((None, a))
        if a is not None:
            out.append((a, a))
    for _ in range(10 if tier == "quick" else 40):
        a, b = rng.choice(pts), rng.choice(pts)
        if a is not None and b is not None and a > b:
            a, b = b, a
        out.append((a, b))
    # dedupe
    seen, res = set(), []
    for w in out:
        if w not in seen:
            seen.add(w)
            res.append(w)
    return res


def select(msgs, a, b):
    return [m for m in msgs if (a is None or (m[0], m[1]) >= a) and (b is None or (m[0], m[1]) <= b)]


def cli_dt(x):
    return gen.fmt_ts(x[0], x[1], None, 6)


def run(pid, tier, seed):
    rep = Reporter(pid, tier, seed, "model_checking")
    rng = random.Random(seed * 65537 + 3)
    common.build_s4()
    common.build_harness()
    exe = common.harness_bin("reader_replay")
    with Scratch(pid) as sc:
        # ---- TLC
        consts = {"MaxN": 3 if tier == "quick" else 4, "MinLen": 2, "MaxLen": 3, "MaxCont": 2, "DTs": {1, 2, 3}}
        cfg = write_cfg(os.path.join(sc, "tlc", "bs.cfg"), consts, spec="Spec",
                        invariants=["Correct", "Bounded", "OrderAB", "WindowEq"], properties=["Terminates"])
        r = tlc("BinSearch", cfg, os.path.join(sc, "tlc"), workers=8, timeout=1500)
        if r.violated:
            rep.violation("model:BinSearch:%s" % r.violated, "BinSearch.tla violates %s" % r.violated,
                          {"kind": "tlc", "cmd": r.cmd, "tail": r.output[-3000:]})
        else:
            common.tlc_must_pass(r, "BinSearch")

        # ---- generated files
        nfiles = 10 if tier == "quick" else 60
        fdir = os.path.join(sc, "files")
        os.makedirs(fdir)
        files = []
        for fi in range(nfiles):
            frac = [0, 3, 6, 7, 1, 9, 0, 2, 8, 4, 5][fi % 11]      # (every number of fractional digits comes round)
            blob, msgs = make_file(rng, rng.choice([1, 2, 3, 5, 8, 12, 20]), frac)
            p = os.path.join(fdir, "f%d.log" % fi)
            with open(p, "wb") as f:
                f.write(blob)
            pgz = os.path.join(fdir, "f%d.log.gz" % fi)
            with open(pgz, "wb") as f:
                f.write(gen.gz_bytes(blob))
            files.append((p, pgz, blob, msgs))

        # ---- in-process: binary search answers + probe traces; processor windows
        insts, meta = [], {}
        for fi, (p, pgz, blob, msgs) in enumerate(files):
            ws = windows(rng, msgs, tier)
            for (a, b) in ws:
                if b is None:
                    B = rng.choice([2, 3, 7, 16, 33, 64, 100, 4096])
                    iid = len(insts)
                    insts.append({"id": iid, "path": p, "blocksz": B, "reader": "sysline",
                                  "calls": [["at", 0, list(a) if a else None]]})
                    meta[iid] = ("at", fi, a, b, B, "plain")
                for path_, cont in ((p, "plain"), (pgz, "gz")):
                    if cont == "gz" and rng.random() < 0.5:
                        continue
                    B = rng.choice([64, 65, 100, 128, 512, 4096, 65536])
                    iid = len(insts)
                    insts.append({"id": iid, "path": path_, "blocksz": B, "reader": "processor", "calls": [],
                                  "after": list(a) if a else None, "before": list(b) if b else None})
                    meta[iid] = ("proc", fi, a, b, B, cont)
        chunks = [insts[i::8] for i in range(8)]

        def runchunk(ic):
            ci, chunk = ic
            tpath = os.path.join(sc, "ptrace%d.ndjson" % ci)
            inp = "\n".join(json.dumps(x) for x in chunk) + "\n"
            env = dict(os.environ)
            env["S4_VERIF_TRACE"] = tpath
            p = subprocess.run([exe], input=inp.encode(), stdout=subprocess.PIPE, stderr=subprocess.PIPE, env=env,
                               timeout=1800)
            outs = [json.loads(l) for l in p.stdout.decode().splitlines() if l.strip()]
            evs = [json.loads(l) for l in open(tpath)] if os.path.exists(tpath) else []
            return outs, evs

        t0 = time.time()
        with ThreadPoolExecutor(max_workers=8) as ex:
            res = list(ex.map(runchunk, list(enumerate(chunks))))
        outs = [o for r_ in res for o in r_[0]]
        log("C03: %d in-process instances in %.1fs" % (len(outs), time.time() - t0))
        if len(outs) != len(insts):
            raise ToolError("reader_replay returned %d results for %d instances" % (len(outs), len(insts)))
        probes = {}
        for _, evs in res:
            cur = None
            for e in evs:
                if e["ev"] == "Instance":
                    cur = e["id"]
                    probes[cur] = []
                elif e["ev"] == "Probe" and cur is not None:
                    probes[cur].append(e)
        trace_recs = []
        on_instant = 0
        skipped_blockzero = 0
        samples = []
        for o in outs:
            kind, fi, a, b, B, cont = meta[o["id"]]
            p, pgz, blob, msgs = files[fi]
            if a is not None and any((m[0], m[1]) == a for m in msgs) or b is not None and any((m[0], m[1]) == b for m in msgs):
                on_instant += 1
            if "panic" in o or "open_err" in o:
                rep.violation("inproc:panic", str(o)[:300], {"kind": "inproc", "file_hex": blob.hex(), "inst": insts[o["id"]]})
                continue
            if kind == "at":
                want = select(msgs, a, None)
                got = o["res"][0]
                begs = []
                off = 0
                for m in msgs:
                    begs.append(off)
                    off += len(m[2])
                if not want:
                    ok = got["r"] == "done" or (got["r"] == "found" and a is not None and tuple(got["dt"]) < a)
                    gi = 0
                else:
                    wi = msgs.index(want[0])
                    ok = got["r"] == "found" and got["beg"] == begs[wi] and got["hex"] == want[0][2].hex()
                    gi = wi + 1
                if not ok:
                    rep.violation("inproc:search", "find_sysline_at_datetime_filter(0, %s) at blocksz %d: wrong first message"
                                  % (a, B), {"kind": "inproc", "file_hex": blob.hex(), "inst": insts[o["id"]], "got": got})
                    continue
                if a is not None and probes.get(o["id"]):
                    ranks = {k: i + 1 for i, k in enumerate(sorted({(m[0], m[1]) for m in msgs} | {a}))}
                    # filter rank on the same scale; a filter between instants gets a rank of its own
                    trace_recs.append({"ev": "Reset", "file": [[m[3], m[4], ranks[(m[0], m[1])]] for m in msgs],
                                       "flt": ranks[a]})
                    for e in probes[o["id"]]:
                        trace_recs.append({"ev": "Probe", "try": e["try"], "a": e["a"], "b": e["b"]})
                    trace_recs.append({"ev": "Result", "res": gi})
            else:
                want = select(msgs, a, b)
                if o.get("stage") != 4:
                    got_list = []
                else:
                    got_list = [x for x in o["res"] if x.get("r") == "found"]
                if [x["hex"] for x in got_list] != [m[2].hex() for m in want]:
                    if o.get("stage") == 1:
                        skipped_blockzero += 1  # not this property's subject (see C02/C12, finding blockzero-reject)
                    else:
                        rep.violation("inproc:window:%s" % cont,
                                      "window [%s, %s] at blocksz %d (%s): got %d messages, expected %d"
                                      % (a, b, B, cont, len(got_list), len(want)),
                                      {"kind": "inproc", "file_hex": blob.hex(), "inst": insts[o["id"]],
                                       "got": [x.get("beg") for x in got_list]})
                elif len(samples) < 3 and want and a is not None:
                    samples.append({"messages": [(m[0] - gen.BASE, m[1]) for m in msgs][:12], "after": a, "before": b,
                                    "blocksz": B, "container": cont, "selected": len(want)})

        # ---- I->S: probe traces against the transcription
        accepted_traces = 0
        if trace_recs:
            tdir = os.path.join(sc, "tv")
            os.makedirs(tdir)
            # batches of whole searches
            batches, cur = [], []
            for rec in trace_recs:
                if rec["ev"] == "Reset" and len(cur) > 3000:
                    batches.append(cur)
                    cur = []
                cur.append(rec)
            batches.append(cur)
            for bi, batch in enumerate(batches):
                tp = os.path.join(tdir, "t%d.ndjson" % bi)
                with open(tp, "w") as f:
                    for rec in batch:
                        f.write(json.dumps(rec) + "\n")
                c2 = dict(consts)
                cfgp = write_cfg(tp + ".cfg", c2, spec="TSpec", invariants=["TCorrect", "OrderAB"], constraint="Progress",
                                 postcondition="Accepted")
                tr = tlc("TraceBinSearch", cfgp, tdir, workers=1, timeout=600, env={"TRACE": tp}, deque=True)
                n = sum(1 for rec in batch if rec["ev"] == "Reset")
                if tr.ok:
                    accepted_traces += n
                elif tr.violated in ("TCorrect",):
                    rep.violation("trace:BinSearch:TCorrect", "recorded search returns a message other than FirstAtOrAfter",
                                  {"kind": "trace", "records": batch[:200]})
                elif tr.violated == "postcondition" or tr.violated == "OrderAB":
                    rep.note_drift("probe sequence of the real binary search is not a path of BinSearch.tla (%s)" % tr.violated)
                else:
                    common.tlc_must_pass(tr, "TraceBinSearch")

        # ---- end-to-end through -a / -b
        cases = []
        for fi, (p, pgz, blob, msgs) in enumerate(files[: (6 if tier == "quick" else 30)]):
            ws = windows(rng, msgs, tier)
            rng.shuffle(ws)
            for (a, b) in ws[: (10 if tier == "quick" else 40)]:
                if a is None and b is None:
                    continue
                cont = ["plain", "bz2", "gz", "plain", "xz", "tar", "lz4"][len(cases) % 7]
                name = "f%d.log" % fi
                if cont == "plain":
                    fl, arg = {name: blob}, name
                elif cont == "gz":
                    fl, arg = {name + ".gz": gen.gz_bytes(blob, mtime=rng.choice([0, 315532800, gen.BASE]))}, name + ".gz"
                elif cont == "xz":
                    fl, arg = {name + ".xz": gen.xz_bytes(blob)}, name + ".xz"
                elif cont == "bz2":
                    fl, arg = {name + ".bz2": gen.bz2_bytes(blob, 1)}, name + ".bz2"
                elif cont == "lz4":
                    fl, arg = {name + ".lz4": gen.lz4_bytes(blob)}, name + ".lz4"
                else:
                    fl, arg = {"f%d.tar" % fi: gen.tar_bytes([(name, blob)], mtime=rng.choice([0, 315532800, gen.BASE]))}, "f%d.tar" % fi
                # the file's own modification time says nothing about what a window selects: now (as written), 1980, the
                # first message's instant, one second before the window opens
                mt = rng.choice([None, 315532800, msgs[0][0], (a[0] - 1) if a is not None else 315532800])
                argv = ["--color", "never", "--blocksz", str([64, 4096, 100, 65536][(len(cases) // 7) % 4])]
                # the same instants zone-less (under -t +00:00) or with a numeric offset written on the values
                woff = rng.choice([None, None, 60, -480, 330, 825])
                if a is not None:
                    argv += ["-a", gen.fmt_ts(a[0], a[1], woff, 6)]
                if b is not None:
                    argv += ["-b", gen.fmt_ts(b[0], b[1], woff, 6)]
                exp = b"".join(m[2] for m in select(msgs, a, b))
                cases.append((Case(fl, argv + [arg], exp, note={"after": a, "before": b, "container": cont, "mtime": mt},
                                   mtimes=({arg: mt} if mt is not None else None)), msgs))

        # ---- one bound given relative to the other (@+Ns / @-Ns), the other carrying a fraction of a second: the same instants
        #      as when both are written out
        for fi, (p, pgz, blob, msgs) in enumerate(files[: (8 if tier == "quick" else 40)]):
            insts = sorted({(m[0], m[1]) for m in msgs})
            if not insts:
                continue
            a = rng.choice(insts)
            k_ = rng.choice([0, 1, 2, 5])
            b = (a[0] + k_, a[1])
            name = "r%d.log" % fi
            exp = b"".join(m[2] for m in select(msgs, a, b))
            for argv_w in (["-a", gen.fmt_ts(a[0], a[1], None, 6), "-b", "@+%ds" % k_], ["-a", "@-%ds" % k_, "-b", gen.fmt_ts(b[0], b[1], None, 6)]):
                cont = ["plain", "gz"][len(cases) % 2]
                fl, arg = ({name: blob}, name) if cont == "plain" else ({name + ".gz": gen.gz_bytes(blob)}, name + ".gz")
                cases.append((Case(fl, ["--color", "never", "--blocksz", "4096"] + argv_w + [arg], exp,
                                   note={"after": a, "before": b, "container": "relative-" + cont, "argv": argv_w}), msgs))

        # ---- several sources under one window: each is cut by the window, then merged (plain: binary search; gz: linear)
        for mi in range(4 if tier == "quick" else 30):
            pick = rng.sample(range(len(files)), min(len(files), rng.choice([2, 3])))
            fl, argvf, allm = {}, [], []
            for w, fi in enumerate(pick):
                p, pgz, blob, msgs = files[fi]
                if rng.random() < 0.5:
                    fl["m%d.log" % w] = blob
                    argvf.append("m%d.log" % w)
                else:
                    fl["m%d.log.gz" % w] = gen.gz_bytes(blob)
                    argvf.append("m%d.log.gz" % w)
                allm.append(msgs)
            inst_all = sorted({(m[0], m[1]) for ms in allm for m in ms})
            a = rng.choice(inst_all + [None])
            b = rng.choice([x for x in inst_all if a is None or x >= a] + [None])
            if a is None and b is None:
                a = inst_all[len(inst_all) // 2]
            woff = rng.choice([None, 60, -480, 330])
            argv = ["--color", "never", "--blocksz", str(rng.choice([64, 4096, 65536]))]
            if a is not None:
                argv += ["-a", gen.fmt_ts(a[0], a[1], woff, 6)]
            if b is not None:
                argv += ["-b", gen.fmt_ts(b[0], b[1], woff, 6)]
            merged = sorted([((m[0], m[1]), w, j, m[2]) for w, ms in enumerate(allm) for j, m in enumerate(select(ms, a, b))], key=lambda x: (x[0], x[1], x[2]))
            cases.append((Case(fl, argv + argvf, b"".join(x[3] for x in merged), note={"after": a, "before": b, "container": "merge%d" % len(pick)}), None))

        # ---- text logs whose timestamps carry no year (dated from the modification time, walking back over New Year): the
        #      window selects by the instants so attributed, whether it opens before, on or after a New Year in the file
        import calendar
        for yi in range(3 if tier == "quick" else 20):
            nwr = [1, 2, 0][yi % 3]
            t_last = calendar.timegm((2024, rng.choice([1, 2, 3]), rng.randrange(1, 28), rng.randrange(24), rng.randrange(60), rng.randrange(60)))
            n = rng.choice([8, 14, 30])
            span = nwr * 366 * 86400 + rng.randrange(5, 60) * 86400 if nwr else rng.randrange(2, 20) * 86400
            step = span // n
            if step > 300 * 86400:
                step = 300 * 86400
            inst = sorted({t_last - k * step - (rng.randrange(0, 3600) if k else 0) for k in range(n)})
            ymsgs = []
            for j, t in enumerate(inst):
                tm = time.gmtime(t)
                data = b"%s %2d %02d:%02d:%02d host app[%d]: yearless f=%d j=%d\n" % (
                    calendar.month_abbr[tm.tm_mon].encode(), tm.tm_mday, tm.tm_hour, tm.tm_min, tm.tm_sec, 100 + j, yi, j)
                ymsgs.append((t, 0, data))
            yblob = b"".join(m[2] for m in ymsgs)
            mt_file = inst[-1] + rng.choice([0, 30, 3000])
            pts = [(t, 0) for t in inst] + [(t + 1, 0) for t in inst[:-1:3]] + [(t - 1, 0) for t in inst[1::3]]
            ywins = [(a_, None) for a_ in rng.sample(pts, min(len(pts), 5 if tier == "quick" else 12))]
            ywins += [(None, b_) for b_ in rng.sample(pts, 2)]
            for _ in range(3 if tier == "quick" else 8):
                a_, b_ = sorted(rng.sample(pts, 2))
                ywins.append((a_, b_))
            for wi, (a, b) in enumerate(ywins):
                cont = ["plain", "gz", "tar", "plain", "bz2"][(wi + yi) % 5]
                name = "y%d.log" % yi
                if cont == "plain":
                    fl, arg = {name: yblob}, name
                elif cont == "gz":
                    fl, arg = {name + ".gz": gen.gz_bytes(yblob, mtime=mt_file)}, name + ".gz"
                elif cont == "bz2":
                    fl, arg = {name + ".bz2": gen.bz2_bytes(yblob, 1)}, name + ".bz2"
                else:
                    fl, arg = {"y%d.tar" % yi: gen.tar_bytes([(name, yblob)], mtime=mt_file)}, "y%d.tar" % yi
                argv = ["--color", "never", "--blocksz", str([64, 65536, 256][wi % 3])]
                if a is not None:
                    argv += ["-a", gen.fmt_ts(a[0], a[1], None, 0)]
                if b is not None:
                    argv += ["-b", gen.fmt_ts(b[0], b[1], None, 0)]
                exp = b"".join(m[2] for m in select(ymsgs, a, b))
                cases.append((Case(fl, argv + [arg], exp, note={"after": a, "before": b, "container": "yearless-" + cont, "new_years": nwr},
                                   mtimes={arg: mt_file}), None))

        # ---- the other kinds: an event log with records stored out of time order (windows placed on and around every
        #      inversion), an accounting file not stored chronologically, a journal; every bound in several spellings
        other_runs = 0
        from . import c10, c08, c09
        # accounting records in the layouts of other systems (shipped samples, records re-timed): windows on and around them
        foreign = c08.foreign_layouts(sc, rep, rng, tier, windowed=True)
        other_runs += sum(f_["windows"] for f_ in foreign)
        import re as _re
        import shutil as _sh
        od = os.path.join(sc, "other")
        os.makedirs(od)
        common.build_harness(["evtx_dump"])
        ev_src = os.path.join(common.REPO, c10.EVTX)
        _sh.copyfile(ev_src, os.path.join(od, "k.evtx"))
        os.utime(os.path.join(od, "k.evtx"), (315532800, 315532800))      # (a file time older than every record)
        ev = c10.dump(ev_src)
        ev_emit = sorted(ev, key=lambda x: ((x["secs"], x["nanos"]), x["idx"]))
        inv = [i for i in range(len(ev) - 1) if (ev[i]["secs"], ev[i]["nanos"]) > (ev[i + 1]["secs"], ev[i + 1]["nanos"])]
        pts = set()
        for i in inv:
            for j in (i - 1, i, i + 1, i + 2):
                if 0 <= j < len(ev):
                    t = (ev[j]["secs"], ev[j]["nanos"])
                    pts |= {t, (t[0], t[1] + 1000), (t[0], max(0, t[1] - 1000)), (t[0] + 1800, t[1]), (t[0] - 1800, t[1])}
        pts = sorted(pts)
        if tier == "quick" and len(pts) > 14:
            pts = rng.sample(pts, 14)
        ojobs = []
        for t in pts:
            ojobs += [("k.evtx", None, t), ("k.evtx", t, None), ("k.evtx", t, t)]
        nc = [(gen.BASE + 905, 0), (gen.BASE + 1805, 0), (gen.BASE + 5, 0), (gen.BASE + 1205, 5000), (gen.BASE + 2, 7000), (gen.BASE + 905, 0)]
        with open(os.path.join(od, "nc.wtmp"), "wb") as f:
            f.write(b"".join(gen.utmp_record(7, 2000 + i, b"pts/%d" % i, b"n%d" % i, b"v%d" % i, b"g%d" % i, s_, n_ // 1000) for i, (s_, n_) in enumerate(nc)))
        os.utime(os.path.join(od, "nc.wtmp"), (315532800, 315532800))
        for t in sorted(set(nc)):
            ojobs += [("nc.wtmp", None, t), ("nc.wtmp", t, None), ("nc.wtmp", t, t), ("nc.wtmp", (t[0], t[1] + 1000), None)]
        jd, jplain, jtruth = c09.prepare(sc, "u22x3")
        _sh.copyfile(jplain, os.path.join(od, "u.journal"))
        os.utime(os.path.join(od, "u.journal"), (315532800, 315532800))
        for us in sorted(set(jtruth)):
            t = (us // 10**6, (us % 10**6) * 1000)
            ojobs += [("u.journal", None, t), ("u.journal", t, None), ("u.journal", t, t), ("u.journal", (t[0], t[1] + 1000), None)]
        # windows that close before the first record / open after the last one, and between two records: nothing selected
        for fname_, lo_, hi_ in (("k.evtx", min(pts), max(pts)), ("nc.wtmp", min(nc), max(nc)),
                                 ("u.journal", (min(jtruth) // 10**6, 0), (max(jtruth) // 10**6 + 1, 0))):
            ojobs += [(fname_, None, (lo_[0] - 10, 0)), (fname_, (lo_[0] - 20, 0), (lo_[0] - 10, 0)), (fname_, (hi_[0] + 10, 0), None),
                      (fname_, (hi_[0] + 10, 0), (hi_[0] + 20, 0))]
        ojobs += [("nc.wtmp", (gen.BASE + 10, 0), (gen.BASE + 800, 0))]

        def odo(ij):
            i, (fname, a, b) = ij
            sp = gen.WINDOW_SPELLINGS[i % len(gen.WINDOW_SPELLINGS)]
            tmp = os.path.join(od, "tmp%d" % i)
            os.makedirs(tmp)
            extra = ["--journal-output", "export"] if fname.endswith(".journal") else []
            rr = common.run_s4(["--color", "never"] + extra + gen.window_argv(a, b, sp) + [fname], cwd=od, tmpdir=tmp, timeout=120, tz_args=False)
            _sh.rmtree(tmp, ignore_errors=True)
            return rr, sp

        with ThreadPoolExecutor(max_workers=8) as ex:
            oruns = list(ex.map(odo, list(enumerate(ojobs))))
        inwin = lambda t, a, b: (a is None or t >= a) and (b is None or t <= b)
        for (fname, a, b), (rr, sp) in zip(ojobs, oruns):
            other_runs += 1
            rec = {"kind": "c03-other", "file": fname, "after": a, "before": b, "spelling": sp[0], "rc": rr.rc}
            if rr.crashed:
                rep.violation("other:crash:%s" % fname, "rc=%s %r" % (rr.rc, rr.err[-200:]), rec)
                continue
            if fname == "k.evtx":
                want = [x["id"] for x in ev_emit if inwin((x["secs"], x["nanos"]), a, b)]
                got = [int(x) for x in c10.RID.findall(rr.out)]
            elif fname == "nc.wtmp":
                order = sorted(range(len(nc)), key=lambda i: ((nc[i][0], (nc[i][1] // 1000) * 1000), i))
                want = [2000 + i for i in order if inwin((nc[i][0], (nc[i][1] // 1000) * 1000), a, b)]
                got = [int(x) for x in _re.findall(rb"ut_pid (\d+)", rr.out)]
            else:
                want = [us for us in jtruth if inwin((us // 10**6, (us % 10**6) * 1000), a, b)]
                got = [int(x) for x in _re.findall(rb"__REALTIME_TIMESTAMP=(\d+)", rr.out)]
            if got != want:
                rep.violation("other:window:%s" % fname, "%s -a %s -b %s (spelled %s): selected %s..., the window holds %s..."
                              % (fname, a, b, sp[0], got[:6], want[:6]), rec)
            elif not want and (rr.rc != 0 or b"ERROR" in rr.err):
                # "an empty selection prints nothing and is not an error"
                rep.violation("other:empty-is-error:%s" % fname, "%s -a %s -b %s: nothing lies in the window, and the run calls it an error (rc=%s, %r)"
                              % (fname, a, b, rr.rc, rr.err[:160]), rec)

        def do(ic):
            i, (case, msgs) = ic
            return case.run(os.path.join(sc, "e2e", "c%d" % i))

        with ThreadPoolExecutor(max_workers=10) as ex:
            runs = list(ex.map(do, list(enumerate(cases))))
        for (case, msgs), rr in zip(cases, runs):
            if rr.crashed:
                rep.violation("e2e:crash", "rc=%s %r" % (rr.rc, rr.err[-200:]), case.replay_record(rr))
            elif rr.out != case.expected:
                rep.violation("e2e:window:%s" % case.note["container"],
                              "-a %s -b %s: stdout differs from Select at byte %d" % (case.note["after"], case.note["before"],
                                                                                       first_diff(rr.out, case.expected)),
                              case.replay_record(rr))
            elif rr.rc != 0 or (not case.expected and b"ERROR" in rr.err):
                rep.violation("e2e:exit-status", "exit status %d / %r for a window (empty selection is not an error)" % (rr.rc, rr.err[:160]),
                              case.replay_record(rr))
        rep.coverage = {
            "states": r.distinct, "transitions": r.generated, "traces_validated_against_impl": accepted_traces,
            "evaluations": len(outs) + len(runs) + other_runs, "other_kind_windows": other_runs, "distinct_nontrivial": on_instant,
            "rule": "one evaluation = one (file, window, block size, container) instance in-process or end-to-end; "
                    "non-trivial = a bound exactly equal to a message instant (counted for in-process instances)",
            "samples": samples, "probe_traces": sum(1 for x in trace_recs if x["ev"] == "Reset"),
            "inproc_instances": len(outs), "skipped_blockzero_rejections": skipped_blockzero, "e2e_runs": len(runs), "checker_cmd": r.cmd, "exhaustive": False,
            "tlc_constants": {k: (sorted(v) if isinstance(v, set) else v) for k, v in consts.items()},
        }
        rep.assumptions = ["text sources are chronological (non-decreasing instants, ties allowed)",
                           "messages are >= 2 bytes (BinSearch.tla assumption; a timestamp is >= 8 bytes)",
                           "record files, evtx and journals: windows are exercised by C08/C10/C09"]
    return rep.finish()
