"""C18: no temporary files left behind, even on Ctrl-C; an interrupt ends the run promptly.

Model: S4Run.tla cleanup part (temp create/register/drop, handler, process exit) -- TLC enumerates every
placement of SIGINT relative to every other action.  Code: (a) the design parameter DROPFIRST is measured
from a recorded trace; (b) SIGINT is raised at the k-th passage of every hook point of every thread
(fault enumeration over signal points), with and without holding the raising thread in place, plus
externally timed signals; (c) adversarial orders taken from the model's counterexamples are replayed
through the turnstile; (d) the reader of standard output goes away early (closed pipe), with workers held
right after a send.  Observed: private TMPDIR after exit, exit latency, exit status."""
import os
import random
import shutil
import signal
import subprocess
import time
from concurrent.futures import ThreadPoolExecutor

from . import common, runmodel
from .common import Reporter, Scratch, log, ToolError, REPO

SRC = {
    "jgz": "logs/programs/journal/Ubuntu22-user-1000x3.journal.gz",
    "jbz2": "logs/programs/journal/Ubuntu22-user-1000x3.journal.bz2",
    "jxz": "logs/programs/journal/Ubuntu22-user-1000x3.journal.xz",
    "jlz4": "logs/programs/journal/Ubuntu22-user-1000x3.journal.lz4",
    "egz": "logs/programs/evtx/Microsoft-Windows-Kernel-PnP%4Configuration.evtx.gz",
    "exz": "logs/programs/evtx/Microsoft-Windows-Kernel-PnP%4Configuration.evtx.xz",
    "Jgz": "logs/programs/journal/RHE_91_system.journal.gz",
}
EXT = {"jgz": "journal.gz", "jbz2": "journal.bz2", "jxz": "journal.xz", "jlz4": "journal.lz4", "egz": "evtx.gz",
       "exz": "evtx.xz", "Jgz": "journal.gz"}
PROMPT_BOUND_S = 5.0


def run_case(sc, idx, keys, env, plan=None, ext_sigint_after=None, timeout=40, close_after=None):
    """Run s4 on copies of the sources in a private dir with a private TMPDIR. Returns dict."""
    d = os.path.join(sc, "c%d" % idx)
    tmp = os.path.join(d, "tmp")
    os.makedirs(tmp)
    argv = []
    for i, k in enumerate(keys):
        name = "s%d.%s" % (i, EXT[k])
        shutil.copyfile(SRC[k] if os.path.isabs(SRC[k]) else os.path.join(REPO, SRC[k]), os.path.join(d, name))
        argv.append(name)
    t_sig = None
    if close_after is not None:
        # the reader of standard output goes away after `close_after` bytes (`s4 ... | head`)
        import json
        e = {"PATH": os.environ.get("PATH", ""), "TZ": "UTC", "TMPDIR": tmp,
             "S4_VERIF_TRACE": os.path.join(d, "trace.ndjson")}
        e.update(env)
        t0 = time.time()
        with open(os.path.join(d, "stderr.txt"), "wb") as ferr:
            p = subprocess.Popen([common.S4_BIN, "-t", "+00:00", "--color", "never"] + argv, cwd=d, env=e,
                                 stdout=subprocess.PIPE, stderr=ferr)
            got = b""
            while len(got) < close_after:
                chunk = p.stdout.read(close_after - len(got))
                if not chunk:
                    break
                got += chunk
            p.stdout.close()
            try:
                p.wait(timeout=timeout)
                timed_out = False
            except subprocess.TimeoutExpired:
                p.kill()
                p.wait()
                timed_out = True
        events = []
        try:
            for line in open(os.path.join(d, "trace.ndjson")):
                try:
                    events.append(json.loads(line))
                except ValueError:
                    pass
        except OSError:
            pass
        r = common.Run(p.returncode, got, open(os.path.join(d, "stderr.txt"), "rb").read(), time.time() - t0, events, timed_out)
    elif ext_sigint_after is None and not env.get("VERIF_STDERR") and not env.get("VERIF_SLOW_UNLINK_US"):
        r = common.run_s4(["--color", "never"] + argv, cwd=d, env=env, plan=plan, trace=True, tmpdir=tmp,
                          timeout=timeout)
    else:
        # external signal at a chosen time after start
        e = {"PATH": os.environ.get("PATH", ""), "TZ": "UTC", "TMPDIR": tmp,
             "S4_VERIF_TRACE": os.path.join(d, "trace.ndjson")}
        e.update(env)
        t0 = time.time()
        # (VERIF_STDERR: standard error is a device that cannot be written to -- /dev/full -- while the signal is handled)
        ferr_ = open(env["VERIF_STDERR"], "wb") if env.get("VERIF_STDERR") else subprocess.PIPE
        # (VERIF_SLOW_UNLINK_US: every unlink takes that long -- a slow device -- by way of strace's delay injection)
        pre_ = []
        if env.get("VERIF_SLOW_UNLINK_US"):
            pre_ = ["strace", "-f", "-o", "/dev/null", "-e", "trace=unlink,unlinkat", "-e",
                    "inject=unlink,unlinkat:delay_enter=%d" % int(env["VERIF_SLOW_UNLINK_US"])]
        p = subprocess.Popen(pre_ + [common.S4_BIN, "-t", "+00:00", "--color", "never"] + argv, cwd=d, env=e,
                             stdout=subprocess.PIPE, stderr=ferr_)
        if ext_sigint_after is not None:
            time.sleep(ext_sigint_after)
        t_sig = time.time()
        try:
            if ext_sigint_after is not None:
                p.send_signal(signal.SIGINT)
            if env.get("VERIF_SECOND_SIGINT_MS"):
                # an impatient second Ctrl-C while the first is being handled
                time.sleep(int(env["VERIF_SECOND_SIGINT_MS"]) / 1000.0)
                p.send_signal(signal.SIGINT)
        except ProcessLookupError:
            pass
        try:
            out, err = p.communicate(timeout=timeout)
            timed_out = False
        except subprocess.TimeoutExpired:
            p.kill()
            out, err = p.communicate()
            timed_out = True
        events = []
        import json
        try:
            for line in open(os.path.join(d, "trace.ndjson")):
                try:
                    events.append(json.loads(line))
                except ValueError:
                    pass
        except OSError:
            pass
        if ferr_ is not subprocess.PIPE:
            ferr_.close()
        r = common.Run(p.returncode, out, err or b"", time.time() - t0, events, timed_out)
    t_end = time.time()
    left = sorted(os.listdir(tmp))
    res = {"keys": keys, "argv": argv, "env": env, "plan": plan, "ext_sigint_after": ext_sigint_after, "rc": r.rc,
           "timed_out": r.timed_out, "wall": r.wall, "leftover": left, "trace": r.trace,
           "stderr": r.err[-500:].decode(errors="replace"),
           "sig_to_exit": None if t_sig is None else t_end - t_sig, "close_after": close_after}
    shutil.rmtree(d, ignore_errors=True)
    return res


def classify(res):
    """Signature of a leftover from the recorded order of events."""
    tr = res["trace"]
    sig = any(e["ev"] in ("HStart", "SigRaise") for e in tr) or res["ext_sigint_after"] is not None
    hstart = any(e["ev"] == "HStart" for e in tr)
    if not sig and res.get("close_after") is not None:
        return "closed-pipe-leak"
    if not sig or not hstart:
        return "normal-exit-leak" if not sig else "sigint-leak:handler-never-ran"
    path_owner = {}
    reg_seq, hrem_seq = {}, None
    for e in tr:
        if e["ev"] == "TempCreate":
            path_owner[os.path.basename(e.get("path", ""))] = e["t"]
        elif e["ev"] == "TempRegister":
            reg_seq[e["t"]] = e["seq"]
        elif e["ev"] == "HRemoved" and hrem_seq is None:
            hrem_seq = e["seq"]
    classes = set()
    for f in res["leftover"]:
        owner = path_owner.get(f)
        if owner is None:
            classes.add("unregistered-at-exit")  # created so late that not even its TempCreate event was logged
        elif owner not in reg_seq:
            classes.add("unregistered-at-exit")
        elif hrem_seq is None or reg_seq[owner] > hrem_seq:
            classes.add("registered-after-handler-pass")
        else:
            classes.add("registered-before-handler-pass")
    return "sigint-leak:" + "+".join(sorted(classes))


def measure_dropfirst(sc):
    """Does a worker drop its reader (temp file) before it sends FileSummary?  Read off a recorded trace."""
    res = run_case(sc, 99990, ["jgz"], {})
    tr = res["trace"]
    runmodel.check_hooks_present(tr)
    if not any(e["ev"] == "TempCreate" for e in tr):
        raise ToolError("TempCreate hook event missing")
    drop = [e["seq"] for e in tr if e["ev"] == "ReaderDrop" and e["t"] == "w0"]
    ssum = [e["seq"] for e in tr if e["ev"] == "SendStart" and e["t"] == "w0" and e["k"] == 2]
    return bool(drop and ssum and drop[0] < ssum[0]), res


def tlc_part(sc, rep, tier, dropfirst):
    states = trans = 0
    details = []
    predictions = {}
    nmax = 2 if tier == "quick" else 3
    runs = []
    for n in range(1, nmax + 1):
        m = 1 if n >= 2 else 2
        base = runmodel.s4run_constants(n, m, {1}, tmpw=set(range(1, n + 1)), sig=False, dropfirst=dropfirst)
        runs.append(("normal-n%d" % n, base, ["NoLeakNormal", "AllPrintedAtEnd"], ["Exits"]))
        # a write to stdout may fail (closed pipe): main disconnects the channels and leaves without waiting for the workers
        ep = dict(base)
        ep["EPIPE"] = True
        runs.append(("epipe-n%d" % n, ep, ["NoLeakNormal"], ["Exits"]))
        sg = dict(base)
        sg["SIG"] = True
        for inv in ("NoLeakNormal", "NoLeakUnregistered", "NoLeakRegistered"):
            runs.append(("sigint-n%d-%s" % (n, inv), sg, [inv], ["SigintLeadsToExit"] if inv == "NoLeakNormal" else []))
    for name, consts, invs, props in runs:
        r = runmodel.model_check(os.path.join(sc, "tlc"), name, consts, invs, props, workers=8, timeout=900)
        if r.violated:
            sigx = "closed-pipe-leak" if name.startswith("epipe") else {"NoLeakNormal": "normal-exit-leak", "NoLeakUnregistered": "sigint-leak:unregistered-at-exit",
                    "NoLeakRegistered": "sigint-leak:registered-after-handler-pass"}.get(r.violated, r.violated)
            # DROPFIRST / REGATOMIC are read off the code structurally; a violation of the model under them is a
            # PREDICTION that must be reproduced on the real binary before it is reported (soundness rule 1)
            predictions.setdefault(sigx, {"config": name, "invariant": r.violated, "cmd": r.cmd,
                                          "counterexample_tail": r.output[-4000:]})
        else:
            common.tlc_must_pass(r, name)
        states += r.distinct
        trans += r.generated
        details.append({"config": name, "distinct": r.distinct, "generated": r.generated,
                        "result": "ok" if r.ok else str(r.violated), "wall_s": round(r.wall, 1)})
    return states, trans, details, predictions


GATE_OF = {"WStart": "WStart", "TempCreate": "TempCreate", "TempRegister": "TempRegister", "SendStart": "SendStart",
           "SendDone": "SendDone", "WReturn": "WReturn", "Recv": "RecvDone", "Print": "Print", "MainExit": "MainExit"}


def signal_points(trace, per_point):
    """(thread, gate, k) passages seen in a free run; k sampled: first, second, middle, last."""
    counts = {}
    for e in trace:
        g = GATE_OF.get(e["ev"])
        if g:
            counts[(e["t"], g)] = counts.get((e["t"], g), 0) + 1
            if e["ev"] == "Recv":
                counts[("main", "Recv")] = counts.get(("main", "Recv"), 0) + 1
            if e["ev"] == "SendStart" and e.get("k") == 2:
                counts[(e["t"], "SendStartSum")] = 1
                counts[(e["t"], "SendDoneSum")] = 1
    pts = []
    for (t, g), c in sorted(counts.items()):
        ks = sorted({0, 1, c // 2, c - 1} & set(range(c)))
        for k in ks[:per_point]:
            pts.append((t, g, k))
    return pts


def make_tars(sc):
    """journal / event log as members of a .tar (unpacked through a temp file like the compressed forms)"""
    import gzip
    import tarfile
    from . import gen
    g = os.path.join(sc, "gen")
    os.makedirs(g, exist_ok=True)
    j = gzip.decompress(open(os.path.join(REPO, SRC["jgz"]), "rb").read())
    e = gzip.decompress(open(os.path.join(REPO, SRC["egz"]), "rb").read())
    for key, member, data in (("jtar", "user-1000.journal", j), ("etar", "Kernel-PnP.evtx", e)):
        p = os.path.join(g, key + ".tar")
        with open(p, "wb") as f:
            f.write(gen.tar_bytes([(member, data)], fmt=tarfile.GNU_FORMAT))
        SRC[key] = p
        EXT[key] = "tar"


def run(pid, tier, seed):
    rep = Reporter(pid, tier, seed, "model_checking")
    rng = random.Random(seed * 104729 + 18)
    common.build_s4()
    with Scratch(pid) as sc:
        make_tars(sc)
        dropfirst, free1 = measure_dropfirst(sc)
        states, trans, details, predictions = tlc_part(sc, rep, tier, dropfirst)

        combos = [["jgz"], ["jgz", "jbz2"], ["etar"], ["jxz", "egz", "jlz4"], ["egz"], ["jtar", "etar"]]
        if tier == "thorough":
            combos += [["jtar"], ["jtar", "jgz"], ["jbz2"], ["jlz4", "jxz"], ["exz", "jgz"], ["Jgz"], ["Jgz", "jgz"], ["jgz", "jbz2", "jxz", "jlz4"]]
        jobs = []
        # (a) normal exits: free, seeded, worker held right after its summary was sent / before it returns
        for keys in combos:
            n = len(keys)
            jobs.append((keys, {}, None, None, "normal:free"))
            for _ in range(2 if tier == "quick" else 6):
                jobs.append((keys, {"S4_VERIF_SEED": str(rng.randrange(1 << 30)), "S4_VERIF_DELAY_US": "800"}, None, None,
                             "normal:seeded"))
            for w in range(n):
                jobs.append((keys, {"S4_VERIF_HOLD": "w%d:SendDoneSum:0:250" % w}, None, None, "normal:hold-after-summary"))
                jobs.append((keys, {"S4_VERIF_HOLD": "w%d:SendStartSum:0:150" % w}, None, None, "normal:hold-before-summary"))
        # (b) SIGINT at every hook point passage
        per_point = 2 if tier == "quick" else 4
        for keys in combos[: (3 if tier == "quick" else len(combos))]:
            free = run_case(sc, 99000 + len(jobs), keys, {})
            for (t, g, k) in signal_points(free["trace"], per_point):
                jobs.append((keys, {"S4_VERIF_SIGINT": "%s:%s:%d" % (t, g, k)}, None, None, "sigint:%s:%s" % (t[0], g)))
                if t != "main":
                    # keep the raising worker in place while the handler runs
                    jobs.append((keys, {"S4_VERIF_SIGINT": "%s:%s:%d" % (t, g, k),
                                        "S4_VERIF_HOLD": "%s:%s:%d:150" % (t, g, k)}, None, None,
                                 "sigint+hold:%s:%s" % (t[0], g)))
        # (b') the same while standard error cannot be written to (2>/dev/full: a full disk behind a redirected stderr):
        #      whatever the program has to say on the way out, the files still go
        for keys in combos[: (2 if tier == "quick" else len(combos))]:
            jobs.append((keys, {"VERIF_STDERR": "/dev/full"}, None, None, "stderr-full:normal"))
            for trig in ("w0:SendDone:0", "main:Recv:2", "w0:TempRegister:0"):
                jobs.append((keys, {"S4_VERIF_SIGINT": trig, "VERIF_STDERR": "/dev/full"}, None, None, "stderr-full:sigint:" + trig.split(":")[1]))
        # (b'') the same on a device where removing a file takes a while (every unlink delayed): whoever removes the files, the
        #       process does not end before they are gone
        import shutil as _sh2
        if _sh2.which("strace"):
            for keys in combos[: (2 if tier == "quick" else len(combos))]:
                jobs.append((keys, {"VERIF_SLOW_UNLINK_US": "120000"}, None, None, "slow-unlink:normal"))
                for trig in ("w0:SendDone:0", "main:Recv:2", "w0:TempRegister:0", "main:Print:1"):
                    jobs.append((keys, {"S4_VERIF_SIGINT": trig, "VERIF_SLOW_UNLINK_US": "120000"}, None, None, "slow-unlink:sigint:" + trig.split(":")[1]))
        # (c) orders taken from the model's counterexamples: signal while another worker has created its
        #     file but not yet registered it; signal before a late worker creates its file
        for keys in [c for c in combos if len(c) >= 2][: (2 if tier == "quick" else 5)] * (2 if tier == "quick" else 4):
            jobs.append((keys, {"S4_VERIF_SIGINT": "w0:SendDone:0", "S4_VERIF_HOLD": "w1:TempCreate:0:300"}, None, None,
                         "plan:created-unregistered"))
            jobs.append((keys, {"S4_VERIF_SIGINT": "w0:SendDone:0", "S4_VERIF_HOLD": "w1:WStart:0:300"}, None, None,
                         "plan:create-after-handler"))
            jobs.append((keys, {"S4_VERIF_SIGINT": "w0:TempRegister:0", "S4_VERIF_HOLD": "w1:TempCreate:0:300"},
                         None, None, "plan:created-unregistered-early"))
            # turnstile: the last worker starts only after the handler has finished, creates and lists its file,
            # and only then may main exit (a file created after the handler's pass must not survive)
            lastw = "w%d" % (len(keys) - 1)
            # (main is kept out of select() -- where it holds the read lock the handler needs -- by planning its
            # first passage of the Recv gate after the handler's last step)
            for trig in ("w0:WStart:0", "w0:SendStart:0", "w0:TempRegister:0"):
                jobs.append((keys, {"S4_VERIF_SIGINT": trig, "S4_VERIF_PLAN_TIMEOUT_MS": "700"},
                             [("sig", "HFlag"), (lastw, "WStart"), (lastw, "TempRegister"), ("main", "Recv"),
                              ("main", "MainExit")], None, "plan:create-after-handler-pass"))
            # turnstile: the last worker has entered decompress_to_ntf but not yet taken the NAMED_TEMP_FILES lock when
            # the signal arrives; it gets the lock only after the handler AND main's own removal pass are over, and main
            # exits after that (a file created that late must not exist: nobody is left to remove it)
            jobs.append((keys, {"S4_VERIF_SIGINT": "w0:SendStart:0", "S4_VERIF_PLAN_TIMEOUT_MS": "700"},
                         [(lastw, "WStart"), ("sig", "HFlag"), ("main", "Recv"), ("main", "SweepDone"), (lastw, "TempLock"), (lastw, "TempRegister"),
                          ("main", "MainExit")], None, "plan:lock-after-main-sweep"))
            # a source that finished earlier leaves a stale path at the head of NAMED_TEMP_FILES: the handler must
            # still remove the files listed after it.  The first worker runs to its end before the last one starts;
            # SIGINT once the last one has listed its file; that worker is held after its FileInfo so that main
            # exits while the file is still the worker's.
            jobs.append((keys, {"S4_VERIF_SIGINT": "%s:TempRegister:0" % lastw, "S4_VERIF_HOLD": "%s:SendDone:0:250" % lastw,
                                "S4_VERIF_PLAN_TIMEOUT_MS": "1500"},
                         [("w0", "WReturn"), (lastw, "WStart")], None, "plan:stale-entry-before-live-file"))
            # turnstile: the handler's removal pass runs while the last worker sits between create and register
            jobs.append((keys, {"S4_VERIF_SIGINT": "w0:SendStart:0", "S4_VERIF_PLAN_TIMEOUT_MS": "700"},
                         [(lastw, "WStart"), ("sig", "HRemoved"), (lastw, "TempCreate"), ("main", "Recv"),
                          ("main", "MainExit"), (lastw, "TempRegister")], None,
                         "plan:removal-pass-between-create-and-register"))
        # (c') behaviours of the specification itself (TLC simulation of S4Run with SIG, the measured DROPFIRST and scanned
        #      REGATOMIC) replayed through the turnstile: the signal is raised at the hook passage the behaviour puts it after
        sim_plans = 0
        for keys in [c for c in combos if len(c) <= 3]:
            n = len(keys)
            dts = [[1, 1, 1]] * n if keys[0].startswith("j") else [[1]] * n
            plans, _r = runmodel.simulate_plans(os.path.join(sc, "sim"), [[1, 1, 1] if k.startswith("j") or k.startswith("J") else [1, 1] for k in keys],
                                                num=(6 if tier == "quick" else 60), depth=300, seed=rng.randrange(1 << 20),
                                                tmpw=set(range(1, n + 1)), sig=True, dropfirst=dropfirst)
            for plan, sigspec in plans:
                if not sigspec:
                    continue
                # message counts of the real sources differ from the abstract ones: keep the cleanup-relevant part of the
                # order (temp create / register, handler steps, main exit) and the first sends
                keep = [e for e in plan if e[1] in ("TempLock", "TempCreate", "TempRegister", "HCleared", "HRemoved", "HFlag", "SweepDone", "MainExit")]
                sthread, spoint, sk = sigspec.split(":")
                if spoint not in ("TempCreate", "TempRegister") and int(sk) > 0:
                    continue
                jobs.append((keys, {"S4_VERIF_SIGINT": sigspec, "S4_VERIF_PLAN_TIMEOUT_MS": "500"}, keep, None, "plan:tlc-behaviour"))
                sim_plans += 1
        # (d) externally timed signals swept over the run
        sweep = 6 if tier == "quick" else 40
        for keys in (combos[1], combos[3]) if tier == "quick" else combos:
            wall = max(run_case(sc, 98000 + len(jobs), keys, {})["wall"], 0.004)
            for i in range(sweep):
                jobs.append((keys, {}, None, wall * (i + rng.random()) / sweep, "sigint:external"))
                if i % 3 == 0:
                    jobs.append((keys, {"VERIF_SECOND_SIGINT_MS": str(rng.choice([0, 1, 5, 30]))}, None, wall * (i + rng.random()) / sweep,
                                 "sigint:external-twice"))

        # (e) the reader of standard output goes away (`s4 ... | head`): every print fails from then on, main
        #     disconnects the channels one by one and leaves without waiting for the workers; a worker held right
        #     after one of its sends still owns its file when main gets there
        for keys in combos:
            for take in ([0, 300] if tier == "quick" else [0, 1, 300, 5000, 60000]):
                jobs.append((keys, {}, None, ("close", take), "epipe:free"))
                for w in range(len(keys)):
                    for k in ((1,) if tier == "quick" else (0, 1, 3)):
                        jobs.append((keys, {"S4_VERIF_HOLD": "w%d:SendDone:%d:300" % (w, k)}, None, ("close", take), "epipe:hold-worker"))
                jobs.append((keys, {"S4_VERIF_HOLD": "main:MainExit:0:200"}, None, ("close", take), "epipe:hold-main"))

        def do(ij):
            i, (keys, env, plan, ext, label) = ij
            if isinstance(ext, tuple):
                res = run_case(sc, i, keys, env, plan=plan, close_after=ext[1])
            else:
                res = run_case(sc, i, keys, env, plan=plan, ext_sigint_after=ext)
            res["label"] = label
            return res

        t0 = time.time()
        with ThreadPoolExecutor(max_workers=6) as ex:
            results = list(ex.map(do, list(enumerate(jobs))))
        log("C18: %d runs in %.1fs" % (len(results), time.time() - t0))

        distinct = set()
        windows = 0
        samples = []
        trace_batches = []
        for res in results:
            label = res["label"]
            distinct.add((tuple(res["keys"]), label, str(sorted(res["env"].items()))))
            sigint = label.startswith("sigint") or label.startswith("plan") or label.startswith("stderr-full:sigint") or label.startswith("slow-unlink:sigint")
            rec = {"kind": "c18", "keys": res["keys"], "env": res["env"], "label": label,
                   "ext_sigint_after": res["ext_sigint_after"], "close_after": res.get("close_after"), "leftover": res["leftover"], "rc": res["rc"],
                   "stderr": res["stderr"], "trace": res["trace"][:300]}
            if res["timed_out"]:
                rep.violation("hang:%s" % label.split(":")[0], "run did not end (label %s)" % label, rec)
                continue
            if res["leftover"]:
                rep.violation(classify(res), "temp file(s) %s left in TMPDIR after exit (%s)" % (res["leftover"], label), rec)
            if res["rc"] not in (0, 1, -2, 130):
                rep.violation("exit-status:%s" % label.split(":")[0], "exit status %s (%s)" % (res["rc"], label), rec)
            if not sigint and not label.startswith("epipe") and not label.startswith("stderr-full") and res["rc"] != 0:
                rep.violation("exit-status:normal", "normal run exit status %s" % res["rc"], rec)
            lat = res["sig_to_exit"]
            if lat is None and sigint:
                # in-process raise: latency from the SigRaise event cannot be read from the trace (no clock); use wall
                lat = res["wall"] - 0.3 if "HOLD" in str(res["env"]) else res["wall"]
            if sigint and lat is not None and lat > PROMPT_BOUND_S:
                rep.violation("not-prompt:%s" % label.split(":")[0], "%.1fs from SIGINT to exit" % lat, rec)
            # race windows visible in the recorded order even when the file was unlinked in time
            ev = res["trace"]
            mex = [e["seq"] for e in ev if e["ev"] == "MainExit"]
            for e in ev:
                if e["ev"] == "ReaderDrop" and mex and e["seq"] > mex[0]:
                    windows += 1
                    break
            if len(samples) < 4 and (sigint or len(samples) < 1):
                samples.append({"sources": res["keys"], "label": label, "env": res["env"], "rc": res["rc"],
                                "leftover": res["leftover"], "events": [e["ev"] for e in ev][:40]})
            if not sigint and not res["leftover"] and not label.startswith("epipe"):
                trace_batches.append(res)

        # model predictions (design parameters read off the code) must be reproduced on the real binary
        seen = {v[0] for v in rep.violations} | set(rep.known_hits)
        for sigx, info in predictions.items():
            parts = sigx.split(":")[-1]
            if not any(parts in s_ for s_ in seen):
                rep.note_drift("S4Run.tla with DROPFIRST=%s REGATOMIC=%s predicts %s (config %s) but no run of the real "
                               "binary reproduced it" % (dropfirst, runmodel.reg_atomic(), sigx, info["config"]))
        # I->S: traces of the normal runs against TraceS4Run (TMPW = all sources)
        accepted = 0
        for res in trace_batches[: (12 if tier == "quick" else 60)]:
            n = len(res["keys"])
            # ground truth: the messages each worker announced (SendStart k=1); the point here is the
            # cleanup protocol, the merge order is C01's business
            inst = {}
            for e in res["trace"]:
                if e["ev"] == "SendStart" and e["k"] == 1:
                    inst.setdefault(int(e["t"][1:]), []).append((e["ds"], e["dn"]))
            ranks = runmodel.rank_table([x for v in inst.values() for x in v])
            dts = [[ranks[x] for x in inst.get(w, [])] for w in range(n)]
            recs = [runmodel.reset_record(dts, ["ok"] * n)] + runmodel.annotate(res["trace"], ranks)
            ok, first, tr = runmodel.validate(os.path.join(sc, "tv"), recs, tmpw=set(range(1, runmodel.MAXN + 1)),
                                              invariants=("TraceInv", "NoLeak"), dropfirst=dropfirst, timeout=300)
            if ok:
                accepted += 1
            elif tr.violated == "NoLeak":
                rep.coverage.setdefault("trace_noleak_windows", 0)
                rep.coverage["trace_noleak_windows"] += 1
            elif tr.violated and tr.violated != "postcondition":
                rep.violation("trace:%s" % tr.violated, "recorded execution violates %s" % tr.violated,
                              {"kind": "c18-trace", "keys": res["keys"], "env": res["env"], "trace": recs[:300]})
            else:
                rep.note_drift("normal-run trace not explained by S4Run.tla at event %s: %s"
                               % (first, recs[first - 1] if first and first <= len(recs) else None))

        cov = {"states": states, "transitions": trans, "traces_validated_against_impl": accepted,
               "evaluations": len(results), "distinct_nontrivial": len([d for d in distinct if d[1] != "normal:free"]),
               "rule": "one evaluation = one run of the hooked binary on 1..4 compressed journal/evtx sources with a private "
                       "TMPDIR; distinct by (sources, schedule/signal placement); non-trivial = a signal was delivered or "
                       "a thread was held at a hook point",
               "samples": samples, "tlc_configs": details, "dropfirst_measured": dropfirst, "regatomic_scanned": runmodel.reg_atomic(),
               "model_predictions": sorted(predictions),
               "exit_before_worker_drop_windows_seen": windows, "tlc_behaviours_replayed": sim_plans, "signal_placements": len([r for r in results if r["label"].startswith("sigint")]),
               "exhaustive": False}
        cov.update(rep.coverage)
        rep.coverage = cov
        rep.assumptions = ["SIGINT delivered once per run (twice, milliseconds apart, in the external sweep)", "process exit kills all other threads at once (no destructors)",
                           "promptness bound %.0fs on millisecond workloads" % PROMPT_BOUND_S,
                           "only journal/evtx sources use temp files (text/fixedstruct containers are streamed)"]
    return rep.finish()


def replay(rec):
    common.build_s4()
    if rec.get("kind") != "c18":
        print("replay: model-level record; re-run ./check C18")
        return 0
    with Scratch("replayC18") as sc:
        bad = 0
        for i in range(5):
            res = run_case(sc, i, rec["keys"], rec["env"], ext_sigint_after=rec.get("ext_sigint_after"),
                           close_after=rec.get("close_after"))
            print("replay run %d: rc=%s leftover=%s" % (i, res["rc"], res["leftover"]))
            if res["leftover"] or res["timed_out"]:
                bad += 1
    if bad:
        print("VIOLATION property=C18 replay=(replayed %d/5)" % bad)
    return 1 if bad else 0
