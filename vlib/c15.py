"""C15: directories and stdin path lists expand to the same run as explicit files.

Spec: Walk.tla -- trees (nesting, one symbolic link to a file or directory, log / compressed / non-log / empty
directory leaves) with Expand = files beneath the root in component-wise sorted order minus known non-log types;
TLC checks Expand is the sorted duplicate-free listing and emits every tree with Expand and ExpandAll.
Code: every tree is materialised with names containing spaces and non-ASCII characters; every file holds messages
of one common instant, so the printed order is the PathId order; `s4 DIR`, `s4 <Expand(DIR)>` and
`printf paths | s4 -` (every split of the list between arguments and stdin) must print the same bytes, and naming
every file explicitly (ExpandAll) must also print the non-log ones."""
import os
import random
import shutil
import time
from concurrent.futures import ThreadPoolExecutor

from . import common, gen
from .common import Reporter, Scratch, ToolError, log, tlc, write_cfg
from .e2e import first_diff

STEMS = {1: "A b", 2: "m.d", 3: "é€ x", 4: "ω link"}
SUFFIX = {"log": ".log", "gz": ".log.gz", "nonlog": ".bin", "dir": ""}


def mixed_argument_runs(sc, rng, trials):
    """Directories and single files interleaved on the command line; every message carries one instant, so stdout is the
    files in the order they were named (sorted path order inside each directory).  Yields (label, argv, run, want)."""
    md = os.path.join(sc, "mixedargs")
    if os.path.isdir(md):
        shutil.rmtree(md)
    common.build_harness(["mk_lz4"])
    # (every stored form of a text log beneath a walked directory: found by the walk exactly as when named)
    trees = {"dirA": ["a1.log", "sub/a2.log", "sub/deep/a3.log", "pk/z1.log.gz", "pk/z2.log.xz", "pk/z3.log.bz2", "pk/z4.log.lz4",
                      "pk/z5.log.old.gz", "pk/z6.1.lz4",
                      # a directory next to siblings whose names begin with its name and go on with a byte below '/': sorted by
                      # path COMPONENTS the directory's files come first, sorted as one string they would not
                      "app/worker.log", "app/z.log", "app.log", "app 2.log", "app-old.log", "app.d/x.log", "app+x.log"]
                     + ["many/f%02d.log" % q for q in range(25)],
             "dirB": ["b1.log"], "dirC": ["x/c1.log", "y/c2.log"], "dirD": []}
    # (single files named explicitly are attempted whatever their names say: a non-log suffix, alone or beneath a compression
    #  suffix)
    files = ["f1.log", "f2.log", "g/f3.log", "t.tar", "page.html.gz", "core.bin.xz", "notes.bin"]
    cont = {}
    for dn, fl in trees.items():
        os.makedirs(os.path.join(md, dn), exist_ok=True)
        for fn in fl:
            blob = b"".join(b"2024-01-01T00:00:00 src=%s idx=%d\n" % ((dn + "/" + fn).encode(), q) for q in range(2))
            cont[dn + "/" + fn] = blob
            enc = {"gz": gen.gz_bytes, "xz": gen.xz_bytes, "bz2": gen.bz2_bytes, "lz4": gen.lz4_bytes}.get(fn.rsplit(".", 1)[-1])
            gen.write(os.path.join(md, dn, fn), enc(blob) if enc else blob)
    for fn in files:
        blob = b"".join(b"2024-01-01T00:00:00 src=%s idx=%d\n" % (fn.encode(), q) for q in range(2))
        cont[fn] = blob
        enc = {"gz": gen.gz_bytes, "xz": gen.xz_bytes}.get(fn.rsplit(".", 1)[-1])
        gen.write(os.path.join(md, fn), gen.tar_bytes([("in.log", blob)]) if fn.endswith(".tar") else (enc(blob) if enc else blob))

    def expand(a):
        if a in trees:
            return [a + "/" + fn for fn in sorted(trees[a], key=lambda x: x.split("/"))]
        return [a]
    fixed = [["dirA", "f1.log"], ["dirA", "dirB"], ["f1.log", "dirA", "f2.log"], ["dirA", "t.tar", "dirB", "f1.log"], ["dirD", "dirA", "f1.log"]]
    out = []
    for trial in range(trials):
        if trial < len(fixed):
            argv = fixed[trial]
        else:
            argv = rng.sample(list(trees) + files, rng.randrange(2, 7))
        want = b"".join(cont[p] for a in argv for p in expand(a))
        r1 = common.run_s4(["--color", "never"] + argv, cwd=md, timeout=60)
        out.append(("mixed-args", argv, r1, want))
        k = rng.randrange(len(argv) + 1)
        r2 = common.run_s4(["--color", "never"] + argv[:k] + ["-"], cwd=md, stdin=("\n".join(argv[k:]) + "\n").encode() if argv[k:] else b"", timeout=60)
        out.append(("mixed-stdin", argv[:k] + ["-"] + ["<" + a for a in argv[k:]], r2, want))
    shutil.rmtree(md, ignore_errors=True)
    return out


ARGS_FILES = {"f1": "f1.log", "f2": "f2.log", "dA/a1": "dA/a1.log", "dA/s/a2": "dA/s/a2.log", "dB/b1": "dB/b1.log"}
ARGS_NAMES = {"f1": "f1.log", "f2": "f2.log", "dA": "dA", "dB": "dB", "dE": "dE", "no": "no such.log", "-": "-"}


def args_model_runs(sc, rng, tier, rep):
    """Args.tla: TLC checks main()'s two loops against the declarative source list for every argument list and every
    standard input within the bounds, and prints each; a sample is run end to end (every message at one instant: the
    printed order is the numbering)."""
    cfg = write_cfg(os.path.join(sc, "tlc", "args.cfg"), {"MaxArgs": 3, "MaxLines": 2}, spec="Spec",
                    invariants=["Correct", "PrefixAlways", "NoDashNoStdin", "Dump"], properties=["Terminates"])
    r = tlc("Args", cfg, os.path.join(sc, "tlc"), workers=4, timeout=1800)
    if r.violated:
        rep.violation("model:Args:%s" % r.violated, "Args.tla violates %s" % r.violated, {"kind": "tlc", "cmd": r.cmd})
        return r, 0
    common.tlc_must_pass(r, "Args")
    insts = common.tla_prints(r.output, "ARGS")
    # those where the order matters first: two or more sources
    insts.sort(key=lambda t: str(t))
    multi = [t for t in insts if len(t[3]) >= 2]
    pick = rng.sample(multi, min(len(multi), 70 if tier == "quick" else 900)) + rng.sample(insts, min(len(insts), 10 if tier == "quick" else 100))
    ad = os.path.join(sc, "argsmodel")
    os.makedirs(os.path.join(ad, "dE"))
    cont = {}
    for fid, fn in ARGS_FILES.items():
        cont[fid] = b"".join(b"2024-01-01T00:00:00 src=%s idx=%d\n" % (fid.encode(), q) for q in range(2))
        gen.write(os.path.join(ad, fn), cont[fid])

    def do(t):
        _, argv, lines, processed = t
        a = [ARGS_NAMES[x] for x in argv]
        sin = "".join(ARGS_NAMES[x] + "\n" for x in lines).encode()
        return common.run_s4(["--color", "never"] + a, cwd=ad, stdin=sin, timeout=60)
    with ThreadPoolExecutor(max_workers=8) as ex:
        runs = list(ex.map(do, pick))
    for t, run_ in zip(pick, runs):
        _, argv, lines, processed = t
        want = b"".join(cont[f] for f in processed)
        if run_.crashed or run_.timed_out or run_.out != want:
            rep.violation("expansion:args-model", "arguments %s, standard input %s: stdout is not that of the sources %s in that order "
                          "(rc=%s, differs at byte %d)" % (list(argv), list(lines), list(processed), run_.rc, first_diff(run_.out, want)),
                          {"kind": "c15-args", "argv": list(argv), "stdin": list(lines), "got": run_.out[:600].decode(errors="replace")})
    shutil.rmtree(ad, ignore_errors=True)
    return r, len(pick)


def run(pid, tier, seed):
    rep = Reporter(pid, tier, seed, "model_checking")
    rng = random.Random(seed * 1543 + 15)
    common.build_s4()
    with Scratch(pid) as sc:
        cfg = write_cfg(os.path.join(sc, "tlc", "wk.cfg"), {"NAMES": {1, 2, 3}, "MaxNodes": 3 if tier == "quick" else 4, "LINK": 4},
                        spec="Spec", invariants=["ExpandOk", "Dump"])
        r = tlc("Walk", cfg, os.path.join(sc, "tlc"), workers=1, timeout=1800)
        if r.violated:
            rep.violation("model:Walk:%s" % r.violated, "Walk.tla violates %s" % r.violated, {"kind": "tlc", "cmd": r.cmd})
            trees = []
        else:
            common.tlc_must_pass(r, "Walk")
            trees = common.tla_prints(r.output, "TREE")
        if tier == "quick" and len(trees) > 220:
            trees = rng.sample(trees, 220)
        elif len(trees) > 6000:
            trees = rng.sample(trees, 6000)

        def build(i, tree):
            _, S, kinds, link, expand, expand_all = tree
            S = [tuple(p) for p in S]
            kind = {tuple(p): k for p, k in kinds}
            root = os.path.join(sc, "t%d" % i, "root dir")
            os.makedirs(root)
            real = {}

            def fname(p):
                k = kind.get(p)
                return STEMS[p[-1]] + (SUFFIX[k] if k else "")

            def relpath(p):
                return os.path.join(*[fname(p[:j + 1]) for j in range(len(p))])

            content = {}
            for p in sorted(S, key=len):
                rp = os.path.join(root, relpath(p))
                k = kind.get(p)
                if k is None or k == "dir":
                    os.makedirs(rp, exist_ok=True)
                else:
                    tag = "P" + "_".join(str(x) for x in p)
                    blob = b"".join(b"2024-01-01T00:00:00 src=%s idx=%d\n" % (tag.encode(), j) for j in range(2))
                    content[p] = blob
                    with open(rp, "wb") as f:
                        f.write(gen.gz_bytes(blob) if k == "gz" else blob)
                real[p] = rp
            linkname = None
            if link:
                link = tuple(link)
                k = kind.get(link)
                linkname = STEMS[4] + (SUFFIX[k] if k and k != "dir" else "")
                os.symlink(real[link], os.path.join(root, linkname))

            def vpath(v):
                """path of a walked file as named under the root (link-relative for files seen through the link)"""
                v = tuple(v)
                if v[0] == 4:
                    rest = v[1:]
                    if not rest:
                        return os.path.join(root, linkname), content[link]
                    tgt = link + rest
                    sub = os.path.join(*[fname(tgt[:len(link) + j + 1]) for j in range(len(rest))])
                    return os.path.join(root, linkname, sub), content[tgt]
                return real[v], content[v]
            exp = [vpath(v) for v in expand]
            exp_all = [vpath(v) for v in expand_all]
            return root, exp, exp_all

        def do(it):
            i, tree = it
            try:
                root, exp, exp_all = build(i, tree)
            except OSError as ex:
                return ("skip", str(ex))
            res = {}
            d = os.path.dirname(root)
            base = ["--color", "never"]
            res["dir"] = common.run_s4(base + [root], cwd=d, timeout=60)
            paths = [p for p, _ in exp]
            res["list"] = common.run_s4(base + paths, cwd=d, timeout=60) if paths else None
            # every split of the path list between arguments and stdin
            splits = []
            if paths:
                k = rng.randrange(len(paths) + 1)
                m = rng.randrange(k, len(paths) + 1)
                argv = paths[:k] + ["-"] + paths[m:]
                splits.append((argv, paths[k:m]))
                splits.append((["-"], paths))
            res["stdin"] = [common.run_s4(base + argv, cwd=d, stdin=("\n".join(sl) + ("\n" if sl else "")).encode(), timeout=60)
                            for argv, sl in splits]
            res["stdin_dir"] = common.run_s4(base + ["-"], cwd=d, stdin=(root + "\n").encode(), timeout=60)
            allp = [p for p, _ in exp_all]
            res["all"] = common.run_s4(base + allp, cwd=d, timeout=60) if allp else None
            shutil.rmtree(d, ignore_errors=True)
            return ("ok", exp, exp_all, res)

        t0 = time.time()
        with ThreadPoolExecutor(max_workers=8) as ex:
            results = list(ex.map(do, list(enumerate(trees))))
        log("C15: %d trees in %.1fs" % (len(results), time.time() - t0))
        nontriv = 0
        nruns = 0
        samples = []
        for tree, res in zip(trees, results):
            if res[0] != "ok":
                continue
            _, exp, exp_all, rr = res
            want = b"".join(c for _, c in exp)
            want_all = b"".join(c for _, c in exp_all)
            rec = {"kind": "c15", "tree": str(tree)[:600]}
            if len(exp) >= 2:
                nontriv += 1
            checks = [("dir", rr["dir"], want)] + ([("list", rr["list"], want)] if rr["list"] else []) + \
                     [("stdin-split", x, want) for x in rr["stdin"]] + [("stdin-dir", rr["stdin_dir"], want)] + \
                     ([("explicit-all", rr["all"], want_all)] if rr["all"] else [])
            for label, run_, expect in checks:
                nruns += 1
                if run_.crashed:
                    rep.violation("crash:%s" % label, "rc=%s %r" % (run_.rc, run_.err[-200:]), rec)
                elif run_.out != expect:
                    rep.violation("expansion:%s" % label,
                                  "%s: stdout differs from the expansion the specification prescribes at byte %d (got %d bytes, want %d)"
                                  % (label, first_diff(run_.out, expect), len(run_.out), len(expect)),
                                  dict(rec, got=run_.out[:400].decode(errors="replace"), want=expect[:400].decode(errors="replace")))
            if len(samples) < 3 and len(exp) >= 3:
                samples.append({"tree": str(tree)[:300], "expanded": [p for p, _ in exp]})
        rep.coverage = {"states": r.distinct, "transitions": r.generated, "traces_validated_against_impl": len(trees),
                        "evaluations": nruns, "distinct_nontrivial": nontriv,
                        "rule": "one tree of Walk.tla = one materialised directory; per tree: s4 DIR, s4 <Expand>, two argv/stdin splits, "
                                "DIR on stdin, all files named explicitly; non-trivial = at least two files expanded",
                        "samples": samples, "exhaustive": tier == "thorough", "checker_cmd": r.cmd}
        rep.assumptions = ["names: 'A b', 'm.d', non-ASCII 'é€ x'; byte order of names = index order", "depth <= 2, at most one symlink",
                           "all messages carry one instant so print order = PathId order", "archives inside directories are covered by the "
                           "tar cases below only in thorough tier"]
        # names that begin or end with white space (blank, TAB, U+3000), next to siblings that differ only by it: the same
        # path string must name the same file whether it is an argument or a line on standard input
        wd = os.path.join(sc, "wsnames")
        os.makedirs(os.path.join(wd, "sub dir "))
        wnames = [" lead.log", "lead.log", "trail.log ", "trail.log", "tab.log\t", "wide.log\u3000", "sub dir /in.log", "sub dir / both .log "]
        wcontent = {}
        for j, n_ in enumerate(wnames):
            blob = b"".join(b"2024-01-01T00:00:00 src=W%d idx=%d\n" % (j, q) for q in range(2))
            wcontent[n_] = blob
            with open(os.path.join(wd, n_), "wb") as f:
                f.write(blob)
        # ... and paths that name nothing to print (missing file, empty file, directory without files) between them:
        # the other paths are expanded exactly as without them, by either route
        open(os.path.join(wd, "empty.log"), "wb").close()
        os.makedirs(os.path.join(wd, "empty dir"))
        for n_ in ("no such file.log", "empty.log", "empty dir"):
            wcontent[n_] = b""
        for trial in range(3 if tier == "quick" else 12):
            order = list(wnames) + rng.sample(["no such file.log", "empty.log", "empty dir"], rng.choice([0, 1, 3]))
            order += rng.sample(wnames, rng.choice([0, 1, 2]))      # a path named twice is read twice, by either route
            rng.shuffle(order)
            # the same file spelled with a leading ./ ; the last stdin line without its newline
            order = [("./" + n_ if (n_ in wcontent and not n_.startswith(" ") and rng.random() < 0.3) else n_) for n_ in order]
            for n_ in order:
                wcontent.setdefault(n_, wcontent.get(n_[2:], b""))
            nofinal = rng.random() < 0.5
            want_w = b"".join(wcontent[n_] for n_ in order)
            k = rng.randrange(len(order) + 1)
            m = rng.randrange(k, len(order) + 1)
            wruns = [("ws-args", common.run_s4(["--color", "never"] + order, cwd=wd, timeout=60)),
                     ("ws-stdin", common.run_s4(["--color", "never", "-"], cwd=wd, stdin=("\n".join(order) + ("" if nofinal else "\n")).encode(), timeout=60)),
                     ("ws-split", common.run_s4(["--color", "never"] + order[:k] + ["-"] + order[m:], cwd=wd,
                                                stdin=("\n".join(order[k:m]) + ("\n" if order[k:m] else "")).encode(), timeout=60))]
            for label, run_ in wruns:
                nruns += 1
                if run_.crashed or run_.out != want_w:
                    rep.violation("expansion:%s" % label, "%s: paths with leading / trailing white space: stdout differs from the files named "
                                  "(rc=%s, got %d bytes, want %d)" % (label, run_.rc, len(run_.out), len(want_w)),
                                  {"kind": "c15-ws", "order": order, "stderr": run_.err[-300:].decode(errors="replace")})
        # symbolic links whose own name and whose target's name fall in different classes: the walk goes by the name the
        # file has IN THE TREE (a link named *.log to a *.bin is read; a link named *.png to a *.log is not)
        xl = os.path.join(sc, "xlinks")
        os.makedirs(os.path.join(xl, "logs", "app"))
        os.makedirs(os.path.join(xl, "store"))
        seg = b"".join(b"2024-01-01T00:00:00 src=SEG idx=%d\n" % q for q in range(2))
        real = b"".join(b"2024-01-01T00:00:00 src=REAL idx=%d\n" % q for q in range(2))
        plain = b"".join(b"2024-01-01T00:00:00 src=PLAIN idx=%d\n" % q for q in range(2))
        for n_, blob in (("store/seg-0001.bin", seg), ("store/real.log", real), ("logs/app/plain.log", plain)):
            with open(os.path.join(xl, n_), "wb") as f:
                f.write(blob)
        os.symlink("../../store/seg-0001.bin", os.path.join(xl, "logs", "app", "current.log"))
        os.symlink("../../store/real.log", os.path.join(xl, "logs", "app", "shot.png"))
        os.symlink("../../store/real.log", os.path.join(xl, "logs", "app", "zlatest"))
        want_x = seg + plain + real          # current.log, plain.log, zlatest (sorted); shot.png is a non-log name
        xruns = [("xlink-dir", common.run_s4(["--color", "never", "logs"], cwd=xl, timeout=60)),
                 ("xlink-dir-stdin", common.run_s4(["--color", "never", "-"], cwd=xl, stdin=b"logs\n", timeout=60)),
                 ("xlink-list", common.run_s4(["--color", "never", "logs/app/current.log", "logs/app/plain.log", "logs/app/zlatest"], cwd=xl, timeout=60))]
        for label, run_ in xruns:
            nruns += 1
            if run_.crashed or run_.out != want_x:
                rep.violation("expansion:%s" % label, "%s: links named across the log / non-log divide: stdout differs (rc=%s, got %r)"
                              % (label, run_.rc, run_.out[:200]), {"kind": "c15-xlink", "stderr": run_.err[-300:].decode(errors="replace")})
        # entries the walk cannot follow (a dangling link, a link to itself) early in the tree: what comes after them is
        # still expanded
        dg = os.path.join(sc, "dangling")
        os.makedirs(os.path.join(dg, "logs", "aaa"))
        os.makedirs(os.path.join(dg, "logs", "bbb", "ccc"))
        dcont = {}
        for n_ in ("logs/aaa/first.log", "logs/bbb/second.log", "logs/bbb/ccc/third.log", "logs/zzz.log"):
            dcont[n_] = b"".join(b"2024-01-01T00:00:00 src=%s idx=%d\n" % (n_.split("/")[-1].split(".")[0].upper().encode(), q) for q in range(2))
            with open(os.path.join(dg, n_), "wb") as f:
                f.write(dcont[n_])
        os.symlink("nowhere.log", os.path.join(dg, "logs", "aaa", "dangling.log"))
        os.symlink("self.log", os.path.join(dg, "logs", "aaa", "self.log"))
        os.symlink("/nonexistent/dir", os.path.join(dg, "logs", "aab"))
        want_d = b"".join(dcont[n_] for n_ in sorted(dcont))
        for label, run_ in (("dangling-dir", common.run_s4(["--color", "never", "logs"], cwd=dg, timeout=60)),
                            ("dangling-dir-stdin", common.run_s4(["--color", "never", "-"], cwd=dg, stdin=b"logs\n", timeout=60)),
                            ("dangling-list", common.run_s4(["--color", "never"] + sorted(dcont), cwd=dg, timeout=60))):
            nruns += 1
            if run_.crashed or run_.out != want_d:
                rep.violation("expansion:%s" % label, "%s: a dangling link early in the tree: stdout differs (rc=%s, %d of %d bytes)"
                              % (label, run_.rc, len(run_.out), len(want_d)), {"kind": "c15-dangling", "stderr": run_.err[-300:].decode(errors="replace")})
        # directories and single files interleaved on the command line: the run is that of the files in the order named
        for label, argv, run_, want_m in mixed_argument_runs(sc, rng, 8 if tier == "quick" else 40):
            nruns += 1
            if run_.crashed or run_.out != want_m:
                rep.violation("expansion:%s" % label, "%s %s: stdout is not that of the named files in the order named (rc=%s, differs at byte %d)"
                              % (label, argv, run_.rc, first_diff(run_.out, want_m)), {"kind": "c15-mixed", "argv": argv, "got": run_.out[:600].decode(errors="replace")})
        ra, nargs = args_model_runs(sc, rng, tier, rep)
        nruns += nargs
        rep.coverage["args_model"] = {"states": ra.distinct, "instances_run": nargs, "checker_cmd": ra.cmd}
        rep.coverage["evaluations"] = nruns
        # tar inside a walked directory: members follow the same rule as files (explicit = attempted, walked = filtered)
        d = os.path.join(sc, "tarcase", "d")
        os.makedirs(os.path.join(d, "sub dir"))
        l1 = b"2024-01-01T00:00:00 src=plain idx=0\n"
        m1 = b"2024-01-01T00:00:00 src=member_log idx=0\n"
        m2 = b"2024-01-01T00:00:00 src=member_bin idx=0\n"
        with open(os.path.join(d, "plain.log"), "wb") as f:
            f.write(l1)
        with open(os.path.join(d, "sub dir", "x.tar"), "wb") as f:
            f.write(gen.tar_bytes([("app.log", m1), ("data.bin", m2)]))
        a = common.run_s4(["--color", "never", d], cwd=sc)
        b = common.run_s4(["--color", "never", os.path.join(d, "plain.log"), os.path.join(d, "sub dir", "x.tar")], cwd=sc)
        if a.out != b.out:
            rep.violation("expansion:tar-in-dir", "a .tar reached through a directory expands differently from the same .tar named explicitly",
                          {"kind": "c15-tar", "dir_out": a.out.decode(errors="replace"), "explicit_out": b.out.decode(errors="replace")})
    return rep.finish()
