"""C10: event-log files -- every record once, ordered by creation time (ties keep file order), window on that time.

Spec: Ordered.tla (Evtx machine: insert all under (time, index), pop first) vs declarative Emit, all small
multisets incl. ties, all windows (TLC).  Code: ground truth (index, EventRecordID, timestamp) from an independent
use of the evtx crate (harness evtx_dump); the EventRecordID sequence printed by the real binary must equal
Emit for no window and for windows on / around actual record times, for the plain file and its compressed forms;
the Print trace of the run is validated against TraceS4Run.tla with the dump as ground truth."""
import json
import os
import random
import re
import shutil
import subprocess
import time
from concurrent.futures import ThreadPoolExecutor

from . import common, gen, runmodel
from .common import Reporter, Scratch, ToolError, log, tlc, write_cfg, REPO

EVTX = "logs/programs/evtx/Microsoft-Windows-Kernel-PnP%4Configuration.evtx"
FORMS = ["", ".gz", ".bz2", ".xz", ".lz4"]
RID = re.compile(rb"<EventRecordID>(\d+)</EventRecordID>")


def dump(path):
    p = subprocess.run([common.harness_bin("evtx_dump"), path], stdout=subprocess.PIPE, stderr=subprocess.PIPE)
    recs = [json.loads(l) for l in p.stdout.decode().splitlines() if l.strip()]
    if not recs or any("err" in r for r in recs):
        raise ToolError("evtx_dump failed on %s: %s" % (path, p.stderr[-300:]))
    return recs


def cli(secs, nanos):
    return gen.fmt_ts(secs, nanos, None, 6)


def run(pid, tier, seed):
    rep = Reporter(pid, tier, seed, "model_checking")
    rng = random.Random(seed * 4099 + 10)
    common.build_s4()
    common.build_harness()
    with Scratch(pid) as sc:
        consts = {"MaxN": 3 if tier == "quick" else 4, "Times": {1, 2, 3}, "KEY": "time_fo", "JBEFORE": "inclusive"}
        cfg = write_cfg(os.path.join(sc, "tlc", "ord.cfg"), consts, spec="Spec", invariants=["EvtxCorrect"])
        r = tlc("Ordered", cfg, os.path.join(sc, "tlc"), workers=6, timeout=900)
        if r.violated:
            rep.violation("model:Ordered:%s" % r.violated, "Ordered.tla violates %s" % r.violated,
                          {"kind": "tlc", "cmd": r.cmd, "tail": r.output[-2000:]})
        else:
            common.tlc_must_pass(r, "Ordered")
        src = os.path.join(REPO, EVTX)
        recs = dump(src)
        emit = sorted(recs, key=lambda x: ((x["secs"], x["nanos"]), x["idx"]))
        inst = sorted({(x["secs"], x["nanos"]) for x in recs})
        # windows: none; every k-th distinct timestamp as A, as B, as A = B; +-1 microsecond; before all; after all
        step = max(1, len(inst) // (6 if tier == "quick" else len(inst)))
        pts = inst[::step] + [inst[0], inst[-1]]
        wins = [(None, None), ((inst[0][0] - 10, 0), None), (None, (inst[0][0] - 10, 0)), ((inst[-1][0] + 10, 0), None)]
        for p_ in pts:
            wins += [(p_, None), (None, p_), (p_, p_), ((p_[0], p_[1] + 1000), None), (None, (p_[0], max(0, p_[1] - 1000)))]
        forms = FORMS if tier == "thorough" else ["", rng.choice(FORMS[1:])]
        jobs = []
        for form in forms:
            for wi_, (a, b) in enumerate(wins):
                # the same instants, spelled differently (explicit offsets, zone-less under a non-UTC --tz-offset)
                sp = gen.WINDOW_SPELLINGS[(wi_ + len(form)) % len(gen.WINDOW_SPELLINGS)] if (a or b) else gen.WINDOW_SPELLINGS[0]
                jobs.append((form, a, b, sp))
                if tier == "thorough" and (a or b):
                    for sp2 in gen.WINDOW_SPELLINGS:
                        if sp2 != sp:
                            jobs.append((form, a, b, sp2))
        d = os.path.join(sc, "files")
        os.makedirs(d)
        for form in forms:
            shutil.copyfile(src + form, os.path.join(d, "k.evtx" + form))
            # the file's own modification time says nothing about the records in it: older than every record
            os.utime(os.path.join(d, "k.evtx" + form), (315532800, 315532800))
        # the event log as a tar member, under a short path and under one beyond the 100-byte name field
        import tarfile
        evb = open(src, "rb").read()
        for tform, member in ((":tar-short", "logs/k.evtx"),
                              (":tar-long", "evidence/HOST-WIN11-LAB/C/Windows/System32/winevt/Logs/Microsoft-Windows-Kernel-PnP%4Configuration.evtx")):
            with open(os.path.join(d, "k" + tform.replace(":", "_") + ".tar"), "wb") as f:
                f.write(gen.tar_bytes([(member, evb)], fmt=tarfile.GNU_FORMAT))
            for (a, b) in wins[:1] + rng.sample(wins[1:], 3 if tier == "quick" else 20):
                jobs.append((tform, a, b, gen.WINDOW_SPELLINGS[len(jobs) % len(gen.WINDOW_SPELLINGS)] if (a or b) else gen.WINDOW_SPELLINGS[0]))

        def do(ij):
            i, (form, a, b, sp) = ij
            argv = ["--color", "never"] + gen.window_argv(a, b, sp)
            tmp = os.path.join(sc, "tmp%d" % i)
            os.makedirs(tmp)
            fname = ("k" + form.replace(":", "_") + ".tar") if form.startswith(":") else ("k.evtx" + form)
            rr = common.run_s4(argv + [fname], cwd=d, trace=(a is None and b is None), tmpdir=tmp, timeout=120,
                               tz_args=False)
            left = os.listdir(tmp)
            shutil.rmtree(tmp, ignore_errors=True)
            return rr, left

        t0 = time.time()
        with ThreadPoolExecutor(max_workers=8) as ex:
            runs = list(ex.map(do, list(enumerate(jobs))))
        log("C10: %d runs in %.1fs" % (len(runs), time.time() - t0))
        samples = []
        on_time = 0
        accepted = 0
        for (form, a, b, sp), (rr, left) in zip(jobs, runs):
            want = [x["id"] for x in emit if (a is None or (x["secs"], x["nanos"]) >= a)
                    and (b is None or (x["secs"], x["nanos"]) <= b)]
            if (a in inst) or (b in inst):
                on_time += 1
            rec = {"kind": "c10", "form": form, "after": a, "before": b, "spelling": sp[0], "rc": rr.rc, "stderr": rr.err[-300:].decode(errors="replace")}
            if rr.crashed:
                rep.violation("crash", "rc=%s" % rr.rc, rec)
                continue
            got = [int(x) for x in RID.findall(rr.out)]
            if got != want:
                lost = len(set(want) - set(got))
                sig = "order" if sorted(got) == sorted(want) else "selection"
                rec.update({"got_head": got[:20], "want_head": want[:20]})
                rep.violation("%s:%s" % (sig, form or "plain"),
                              "evtx%s window [%s, %s] spelled %s: printed %d records, expected %d (%d missing)"
                              % (form, a, b, sp[0], len(got), len(want), lost), rec)
            elif rr.rc != 0:
                rep.violation("exit-status", "exit status %d" % rr.rc, rec)
            elif len(samples) < 3 and a is not None:
                samples.append({"form": form or "plain", "after": a, "before": b, "selected": len(want)})
            if rr.trace and got == want:
                ranks = runmodel.rank_table([(x["secs"], x["nanos"]) for x in emit])
                dts = [[ranks[(x["secs"], x["nanos"])] for x in emit]]
                recs_t = [runmodel.reset_record(dts, ["ok"])] + runmodel.annotate(rr.trace, ranks)
                ok, first, tr = runmodel.validate(os.path.join(sc, "tv"), recs_t,
                                                  tmpw=(set(range(1, runmodel.MAXN + 1)) if form else set()), timeout=300)
                if ok:
                    accepted += 1
                elif tr.violated and tr.violated != "postcondition":
                    rep.violation("trace:%s" % tr.violated, "recorded run violates %s" % tr.violated, rec)
                else:
                    rep.note_drift("evtx%s trace not explained at event %s: %s" % (form, first, recs_t[first - 1] if first and first <= len(recs_t) else None))
        rep.coverage = {"states": r.distinct, "transitions": r.generated, "traces_validated_against_impl": accepted,
                        "evaluations": len(runs), "distinct_nontrivial": on_time,
                        "rule": "one evaluation = one run of the binary on the .evtx file (or a compressed form) with one window; "
                                "non-trivial = a bound exactly equal to a record's creation time",
                        "samples": samples, "records": len(recs), "inversions_in_file": sum(
                            1 for i in range(len(recs) - 1) if (recs[i]["secs"], recs[i]["nanos"]) > (recs[i + 1]["secs"], recs[i + 1]["nanos"])),
                        "exhaustive": False, "checker_cmd": r.cmd}
        rep.assumptions = ["only one non-empty .evtx file exists in the sandbox (227 records, one stored out of order, no equal "
                           "times); ties are covered by the model only", "ground truth from the evtx crate used independently"]
    return rep.finish()
