"""C10: event-log files -- every record once, ordered by creation time (ties keep file order), window on that time.

Spec: Ordered.tla (Evtx machine: insert all under (time, index), pop first) vs declarative Emit, all small
multisets incl. ties, all windows (TLC).  Code: ground truth (index, EventRecordID, timestamp) from an independent
use of the evtx crate (harness evtx_dump); the EventRecordID sequence printed by the real binary must equal
Emit for no window and for windows on / around actual record times, for the plain file and its compressed forms;
the Print trace of the run is validated against TraceS4Run.tla with the dump as ground truth."""
import json
import os
import random
import re
import shutil
import subprocess
import time
from concurrent.futures import ThreadPoolExecutor

from . import common, gen, runmodel
from .common import Reporter, Scratch, ToolError, log, tlc, write_cfg, REPO

EVTX = "logs/programs/evtx/Microsoft-Windows-Kernel-PnP%4Configuration.evtx"
FORMS = ["", ".gz", ".bz2", ".xz", ".lz4"]
RID = re.compile(rb"<EventRecordID>(\d+)</EventRecordID>")


def dump(path):
    p = subprocess.run([common.harness_bin("evtx_dump"), path], stdout=subprocess.PIPE, stderr=subprocess.PIPE)
    recs = [json.loads(l) for l in p.stdout.decode().splitlines() if l.strip()]
    if not recs or any("err" in r for r in recs):
        raise ToolError("evtx_dump failed on %s: %s" % (path, p.stderr[-300:]))
    return recs


def with_ties(data, group, swap_every=0, submilli=False):
    """The same event log with records of EQUAL creation time: in stored order, groups of `group` consecutive records get
    the creation time of the group's first record (whole microseconds), in the record header and in the record body
    (<TimeCreated SystemTime>); a record the file stores out of order is left as it is.  swap_every > 0: in addition
    every swap_every-th group takes the time of the group BEFORE it (so a whole group is stored out of order).
    submilli: instead of equal times, the records of a group lie inside ONE millisecond, 100 microseconds apart, and are
    stored latest first (creation times have 100 ns resolution; ordering by them means by all of it).
    Chunk checksums are not recomputed (the evtx crate does not verify them unless asked to)."""
    import struct
    data = bytearray(data)
    recs = []
    for c in range((len(data) - 4096) // 65536):
        base = 4096 + c * 65536
        ch = data[base:base + 65536]
        if ch[:8] != b"ElfChnk\0":
            continue
        free = struct.unpack_from("<I", ch, 48)[0]
        off = 512
        while off < free and ch[off:off + 4] == b"\x2a\x2a\0\0":
            size, rid, ft = struct.unpack_from("<IQQ", ch, off + 4)
            recs.append((base + off, size, ft))
            off += size
    n_in, ft_group, prev, gno, ft_prev_group = 0, None, None, 0, None
    for off, size, ft in recs:
        ooo = prev is not None and ft < prev
        prev = ft
        if ooo:
            ft_new, n_in = ft, 0
        else:
            if n_in == 0 or ft_group is None:
                ft_prev_group, ft_group = ft_group, ft - ft % 10
                gno += 1
                if swap_every and gno % swap_every == 0 and ft_prev_group is not None:
                    ft_group = ft_prev_group - 10 * 1000 * 1000      # one second before the group stored ahead of it
            ft_new = ft_group
            if submilli:
                ft_new = ft_group - ft_group % 10000 + 1000 * (group - n_in)
            n_in = (n_in + 1) % group
        old, new = struct.pack("<Q", ft), struct.pack("<Q", ft_new)
        body = bytes(data[off + 24:off + size])
        if data[off + 16:off + 24] != old or body.count(old) != 1:
            return None
        data[off + 16:off + 24] = new
        q = body.find(old)
        data[off + 24 + q:off + 24 + q + 8] = new
    return bytes(data)


def cli(secs, nanos):
    return gen.fmt_ts(secs, nanos, None, 6)


def run(pid, tier, seed):
    rep = Reporter(pid, tier, seed, "model_checking")
    rng = random.Random(seed * 4099 + 10)
    common.build_s4()
    common.build_harness()
    with Scratch(pid) as sc:
        consts = {"MaxN": 3 if tier == "quick" else 4, "Times": {1, 2, 3}, "KEY": "time_fo", "JBEFORE": "inclusive"}
        cfg = write_cfg(os.path.join(sc, "tlc", "ord.cfg"), consts, spec="Spec", invariants=["EvtxCorrect"])
        r = tlc("Ordered", cfg, os.path.join(sc, "tlc"), workers=6, timeout=900)
        if r.violated:
            rep.violation("model:Ordered:%s" % r.violated, "Ordered.tla violates %s" % r.violated,
                          {"kind": "tlc", "cmd": r.cmd, "tail": r.output[-2000:]})
        else:
            common.tlc_must_pass(r, "Ordered")
        src = os.path.join(REPO, EVTX)
        recs = dump(src)
        emit = sorted(recs, key=lambda x: ((x["secs"], x["nanos"]), x["idx"]))
        inst = sorted({(x["secs"], x["nanos"]) for x in recs})
        # windows: none; every k-th distinct timestamp as A, as B, as A = B; +-1 microsecond; before all; after all
        step = max(1, len(inst) // (6 if tier == "quick" else len(inst)))
        pts = inst[::step] + [inst[0], inst[-1]]
        wins = [(None, None), ((inst[0][0] - 10, 0), None), (None, (inst[0][0] - 10, 0)), ((inst[-1][0] + 10, 0), None)]
        for p_ in pts:
            wins += [(p_, None), (None, p_), (p_, p_), ((p_[0], p_[1] + 1000), None), (None, (p_[0], max(0, p_[1] - 1000)))]
        forms = FORMS if tier == "thorough" else ["", rng.choice(FORMS[1:])]
        jobs = []
        for form in forms:
            for wi_, (a, b) in enumerate(wins):
                # the same instants, spelled differently (explicit offsets, zone-less under a non-UTC --tz-offset)
                sp = gen.WINDOW_SPELLINGS[(wi_ + len(form)) % len(gen.WINDOW_SPELLINGS)] if (a or b) else gen.WINDOW_SPELLINGS[0]
                jobs.append((form, a, b, sp))
                if tier == "thorough" and (a or b):
                    for sp2 in gen.WINDOW_SPELLINGS:
                        if sp2 != sp:
                            jobs.append((form, a, b, sp2))
        d = os.path.join(sc, "files")
        os.makedirs(d)
        for form in forms:
            shutil.copyfile(src + form, os.path.join(d, "k.evtx" + form))
            # the file's own modification time says nothing about the records in it: older than every record
            os.utime(os.path.join(d, "k.evtx" + form), (315532800, 315532800))
        # the event log as a tar member, under a short path and under one beyond the 100-byte name field
        import tarfile
        evb = open(src, "rb").read()
        for tform, member in ((":tar-short", "logs/k.evtx"),
                              (":tar-long", "evidence/HOST-WIN11-LAB/C/Windows/System32/winevt/Logs/Microsoft-Windows-Kernel-PnP%4Configuration.evtx")):
            with open(os.path.join(d, "k" + tform.replace(":", "_") + ".tar"), "wb") as f:
                f.write(gen.tar_bytes([(member, evb)], fmt=tarfile.GNU_FORMAT))
            for (a, b) in wins[:1] + rng.sample(wins[1:], 3 if tier == "quick" else 20):
                jobs.append((tform, a, b, gen.WINDOW_SPELLINGS[len(jobs) % len(gen.WINDOW_SPELLINGS)] if (a or b) else gen.WINDOW_SPELLINGS[0]))

        def do(ij):
            i, (form, a, b, sp) = ij
            argv = ["--color", "never"] + gen.window_argv(a, b, sp)
            tmp = os.path.join(sc, "tmp%d" % i)
            os.makedirs(tmp)
            fname = ("k" + form.replace(":", "_") + ".tar") if form.startswith(":") else ("k.evtx" + form)
            rr = common.run_s4(argv + [fname], cwd=d, trace=(a is None and b is None), tmpdir=tmp, timeout=120,
                               tz_args=False)
            left = os.listdir(tmp)
            shutil.rmtree(tmp, ignore_errors=True)
            return rr, left

        t0 = time.time()
        with ThreadPoolExecutor(max_workers=8) as ex:
            runs = list(ex.map(do, list(enumerate(jobs))))
        log("C10: %d runs in %.1fs" % (len(runs), time.time() - t0))
        samples = []
        on_time = 0
        accepted = 0
        for (form, a, b, sp), (rr, left) in zip(jobs, runs):
            want = [x["id"] for x in emit if (a is None or (x["secs"], x["nanos"]) >= a)
                    and (b is None or (x["secs"], x["nanos"]) <= b)]
            if (a in inst) or (b in inst):
                on_time += 1
            rec = {"kind": "c10", "form": form, "after": a, "before": b, "spelling": sp[0], "rc": rr.rc, "stderr": rr.err[-300:].decode(errors="replace")}
            if rr.crashed:
                rep.violation("crash", "rc=%s" % rr.rc, rec)
                continue
            got = [int(x) for x in RID.findall(rr.out)]
            if got != want:
                lost = len(set(want) - set(got))
                sig = "order" if sorted(got) == sorted(want) else "selection"
                rec.update({"got_head": got[:20], "want_head": want[:20]})
                rep.violation("%s:%s" % (sig, form or "plain"),
                              "evtx%s window [%s, %s] spelled %s: printed %d records, expected %d (%d missing)"
                              % (form, a, b, sp[0], len(got), len(want), lost), rec)
            elif rr.rc != 0:
                rep.violation("exit-status", "exit status %d" % rr.rc, rec)
            elif len(samples) < 3 and a is not None:
                samples.append({"form": form or "plain", "after": a, "before": b, "selected": len(want)})
            if rr.trace and got == want:
                ranks = runmodel.rank_table([(x["secs"], x["nanos"]) for x in emit])
                dts = [[ranks[(x["secs"], x["nanos"])] for x in emit]]
                recs_t = [runmodel.reset_record(dts, ["ok"])] + runmodel.annotate(rr.trace, ranks)
                ok, first, tr = runmodel.validate(os.path.join(sc, "tv"), recs_t,
                                                  tmpw=(set(range(1, runmodel.MAXN + 1)) if form else set()), timeout=300)
                if ok:
                    accepted += 1
                elif tr.violated and tr.violated != "postcondition":
                    rep.violation("trace:%s" % tr.violated, "recorded run violates %s" % tr.violated, rec)
                else:
                    rep.note_drift("evtx%s trace not explained at event %s: %s" % (form, first, recs_t[first - 1] if first and first <= len(recs_t) else None))
        # ---- the same event log with records of equal creation time (the only non-empty .evtx available has none):
        #      "records of equal time kept in file order", also at the bounds of a window
        tie_runs = tie_files = 0
        for vi, (group, swap) in enumerate([(3, 0), (2, 7), (5, 4), (-2, 0), (-5, 0)] if tier == "quick" else [(3, 0), (2, 7), (5, 4), (2, 0), (4, 3), (10, 2), (40, 0), (-2, 0), (-3, 5), (-5, 0), (-8, 0)]):
            submilli = group < 0
            group = abs(group)
            tb = with_ties(evb, group, swap, submilli)
            if tb is None:
                rep.note("the sample .evtx could not be rewritten with equal times (layout not as expected): tie variants skipped")
                break
            td = os.path.join(sc, "ties%d" % vi)
            os.makedirs(td)
            gen.write(os.path.join(td, "t.evtx"), tb)
            gen.write(os.path.join(td, "t.evtx.gz"), gen.gz_bytes(tb))
            try:
                trecs = dump(os.path.join(td, "t.evtx"))
            except ToolError:
                rep.note("evtx_dump does not read the rewritten event log: tie variants skipped")
                break
            tie_files += 1
            temit = sorted(trecs, key=lambda x: ((x["secs"], x["nanos"]), x["idx"]))
            allk = [(x["secs"], x["nanos"]) for x in trecs]
            tinst = sorted({k_ for k_ in allk if allk.count(k_) > 1})
            if submilli:
                tinst = sorted(set(allk))[:: max(1, len(set(allk)) // 30)]
                if not any(allk[q] > allk[q + 1] and allk[q][0] == allk[q + 1][0] and allk[q][1] // 10**6 == allk[q + 1][1] // 10**6 for q in range(len(allk) - 1)):
                    raise ToolError("rewritten event log holds no inversion inside one millisecond")
            elif not tinst:
                raise ToolError("rewritten event log holds no equal times")
            twins = [(None, None)]
            for p_ in rng.sample(tinst, min(len(tinst), 4 if tier == "quick" else 25)):
                twins += [(p_, None), (None, p_), (p_, p_)]
            tjobs = [(f_, a_, b_) for f_ in ("t.evtx", "t.evtx.gz") for (a_, b_) in (twins if f_ == "t.evtx" else twins[:4])]

            def tdo(job):
                f_, a_, b_ = job
                tmp_ = os.path.join(td, "tmp-%s-%d" % (f_, tjobs.index(job)))
                os.makedirs(tmp_)
                return common.run_s4(["--color", "never"] + gen.window_argv(a_, b_, gen.WINDOW_SPELLINGS[0]) + [f_], cwd=td, tmpdir=tmp_,
                                     timeout=120, tz_args=False)
            with ThreadPoolExecutor(max_workers=8) as ex:
                truns = list(ex.map(tdo, tjobs))
            for (f_, a_, b_), rr in zip(tjobs, truns):
                tie_runs += 1
                want = [x["id"] for x in temit if (a_ is None or (x["secs"], x["nanos"]) >= a_) and (b_ is None or (x["secs"], x["nanos"]) <= b_)]
                got = [int(x) for x in RID.findall(rr.out)]
                rec = {"kind": "c10-ties", "file": f_, "group": group, "swap_every": swap, "inside_one_millisecond": submilli, "after": a_, "before": b_, "rc": rr.rc,
                       "got_head": got[:24], "want_head": want[:24]}
                if rr.crashed:
                    rep.violation("crash:ties", "rc=%s" % rr.rc, rec)
                elif got != want:
                    sig = "order" if sorted(got) == sorted(want) else "selection"
                    rep.violation("%s:ties" % sig, "%s with records of equal creation time (groups of %d), window [%s, %s]: printed %d records, "
                                  "expected %d; first difference at position %d" % (f_, group, a_, b_, len(got), len(want),
                                  next((q for q in range(min(len(got), len(want))) if got[q] != want[q]), min(len(got), len(want)))), rec)
        # ---- the same compressed event log under the SAME file name in two directories (host1/k.evtx.gz, host2/k.evtx.gz), read
        #      in one run: both are printed whole (each record twice, the first-named file's copy first), run after run
        same_runs = 0
        sd_ = os.path.join(sc, "samename")
        for sub in ("host1", "host2"):
            os.makedirs(os.path.join(sd_, sub))
            shutil.copyfile(src + ".gz", os.path.join(sd_, sub, "k.evtx.gz"))
        want2 = [x["id"] for x in emit for _ in (0, 1)]
        for q in range(5 if tier == "quick" else 20):
            tmp_ = os.path.join(sd_, "tmp%d" % q)
            os.makedirs(tmp_)
            rr = common.run_s4(["--color", "never", "host1/k.evtx.gz", "host2/k.evtx.gz"], cwd=sd_, tmpdir=tmp_, timeout=120)
            same_runs += 1
            got2 = [int(x) for x in RID.findall(rr.out)]
            left_ = os.listdir(tmp_)
            if rr.crashed or got2 != want2 or left_:
                rep.violation("same-name:compressed", "host1/k.evtx.gz + host2/k.evtx.gz: %d records printed, %d expected (rc=%s, %r, left in TMPDIR: %s)"
                              % (len(got2), len(want2), rr.rc, rr.err[:120], left_), {"kind": "c10-samename", "run": q, "rc": rr.rc})
                break
        rep.coverage = {"states": r.distinct, "transitions": r.generated, "traces_validated_against_impl": accepted,
                        "evaluations": len(runs) + tie_runs, "distinct_nontrivial": on_time, "equal_time_variants": tie_files, "equal_time_runs": tie_runs, "same_name_runs": same_runs,
                        "rule": "one evaluation = one run of the binary on the .evtx file (or a compressed form) with one window; "
                                "non-trivial = a bound exactly equal to a record's creation time",
                        "samples": samples, "records": len(recs), "inversions_in_file": sum(
                            1 for i in range(len(recs) - 1) if (recs[i]["secs"], recs[i]["nanos"]) > (recs[i + 1]["secs"], recs[i + 1]["nanos"])),
                        "exhaustive": False, "checker_cmd": r.cmd}
        rep.assumptions += ["only one non-empty .evtx file exists in the sandbox (227 records, one stored out of order, no equal "
                           "times); equal times are produced by rewriting its FILETIME fields (header and body) in groups, chunk "
                           "checksums left as they are", "ground truth from the evtx crate used independently"]
    return rep.finish()
