"""C05: compression and archiving are transparent.

Spec: Stream.tla -- block assembly from decoder chunks of arbitrary sizes with look-behind drop: every stored /
answered block holds exactly its byte range, no byte lost or duplicated, for all chunkings and all legal request
sequences (TLC).  Code: (a) in-process BlockReader::read_block(0..n) over real containers must return exactly
the plain slices (every block size class, sizes 0/1/below/at/above one block/exact multiples/many blocks);
(b) end-to-end stdout of every stored form == stdout of the plain file, for text, accounting records, evtx and
journals, with and without a window, at several --blocksz; compressor parameters swept as far as the installed
tools allow (gzip levels 0-9 and header fields, bzip2 -1..-9 incl. multi-block, xz presets/checks, lz4 block
sizes/linked/checksums, tar ustar/gnu/pax with 1..4 members in every position and member names that need the long-name extensions)."""
import json
import lzma
import os
import random
import shutil
import subprocess
import tarfile
import time
from concurrent.futures import ThreadPoolExecutor

from . import common, gen, c08
from .common import Reporter, Scratch, ToolError, log, tlc, write_cfg, REPO
from .e2e import Case, first_diff


def text_blob(rng, size_target, long_tail=False):
    """chronological text log of about size_target bytes"""
    out = []
    n = 0
    k = 0
    while n < size_target:
        k += rng.choice([0, 1, 1, 2])
        line = gen.fmt_ts(gen.BASE + k, 0, None, 0).encode() + b" n=%d " % len(out) + b"x" * rng.choice([0, 10, 60, 200]) + b"\n"
        out.append(line)
        n += len(line)
    blob = b"".join(out)
    return blob[:size_target] if size_target < 40 else blob


def containers(rng, name, blob, tier):
    """yield (label, files dict, argv path) for every stored form of blob under file name `name`"""
    forms = []
    levels = [0, 1, 6, 9] if tier == "quick" else list(range(10))
    for lv in levels:
        forms.append(("gz-l%d" % lv, {name + ".gz": gen.gz_bytes(blob, level=lv)}, name + ".gz"))
    forms.append(("gz-hdr", {name + ".gz": gen.gz_bytes(blob, level=6, mtime=1700000000, name=name)}, name + ".gz"))
    # the optional header fields of RFC 1952: extra field, comment, header CRC, text flag, alone and all together
    forms.append(("gz-fextra", {name + ".gz": gen.gz_header_fields(blob, extra=b"AB\x04\x00abcd")}, name + ".gz"))
    forms.append(("gz-fcomment-fhcrc", {name + ".gz": gen.gz_header_fields(blob, comment=b"rotated by cron", hcrc=True, mtime=1700000000)}, name + ".gz"))
    forms.append(("gz-all-fields", {name + ".gz": gen.gz_header_fields(blob, name=name, extra=b"zz\x00\x00", comment=b"", hcrc=True, ftext=True,
                                                                       mtime=1700000000)}, name + ".gz"))
    for lv in ([1, 9] if tier == "quick" else range(1, 10)):
        forms.append(("bz2-l%d" % lv, {name + ".bz2": gen.bz2_bytes(blob, lv)}, name + ".bz2"))
    for preset, check in ([(0, lzma.CHECK_NONE), (0, lzma.CHECK_CRC32), (6, lzma.CHECK_CRC64), (6, lzma.CHECK_SHA256)] if tier == "quick" else
                          [(0, lzma.CHECK_NONE), (1, lzma.CHECK_CRC32), (6, lzma.CHECK_CRC64), (9, lzma.CHECK_SHA256), (1, lzma.CHECK_SHA256)]):
        # (the SHA-256 integrity check has its own label: the reader does not implement it -- recorded finding)
        forms.append(("%s-p%d-c%d" % ("xzsha256" if check == lzma.CHECK_SHA256 else "xz", preset, check),
                      {name + ".xz": gen.xz_bytes(blob, preset, check)}, name + ".xz"))
    # one stream, several blocks (xz --block-size), when the xz tool is there
    for bsz in ([4096] if tier == "quick" else [4096, 65536, 1]):
        xb = gen.xz_blocks_bytes(blob, max(bsz, 1), "crc64" if bsz != 4096 else "crc32") if len(blob) > 8192 or bsz == 4096 else None
        if xb:
            forms.append(("xz-blocks%d" % bsz, {name + ".xz": xb}, name + ".xz"))
        xm = gen.xz_blocks_bytes(blob, max(bsz, 4096), "crc64", threads=2) if len(blob) > 8192 or bsz == 4096 else None
        if xm:
            forms.append(("xz-mt-blocks%d" % bsz, {name + ".xz": xm}, name + ".xz"))
    for bid, indep, ck, cs in ([(4, True, False, False), (4, False, True, True)] if tier == "quick" else
                               [(4, True, False, False), (4, False, True, True), (5, True, True, False), (6, False, False, True), (7, True, False, False)]):
        forms.append(("lz4-b%d-%s" % (bid, "i" if indep else "l"), {name + ".lz4": gen.lz4_bytes(blob, bid, indep, ck, cs)}, name + ".lz4"))
    # blocks that end early (a streaming writer flushes): decoded block lengths of 1000, 70001 and 100000 bytes
    for fe in ([70001] if tier == "quick" else [1000, 70001, 100000]):
        forms.append(("lz4-flush%d" % fe, {name + ".lz4": gen.lz4_bytes(blob, 4 if fe < 65536 else 5, True, False, False, flush_every=fe)}, name + ".lz4"))
    for fmt, fl in ((tarfile.USTAR_FORMAT, "ustar"), (tarfile.GNU_FORMAT, "gnu"), (tarfile.PAX_FORMAT, "pax")):
        forms.append(("tar-" + fl, {"arc.tar": gen.tar_bytes([(name, blob)], fmt=fmt, mtime=1700000000)}, "arc.tar"))
    return forms


def run(pid, tier, seed):
    rep = Reporter(pid, tier, seed, "model_checking")
    rng = random.Random(seed * 12289 + 5)
    common.build_s4()
    common.build_harness()
    exe = common.harness_bin("reader_replay")
    with Scratch(pid) as sc:
        # ---- TLC: all chunkings
        states = trans = 0
        cfgs = [(7, 3, 3), (8, 4, 2), (4, 1, 2)] if tier == "quick" else [(10, 3, 3), (9, 4, 3), (8, 2, 3), (5, 1, 3), (10, 4, 4)]
        tl = []
        for (fsz, b, k) in cfgs:
            for drop in (True, False):
                cfg = write_cfg(os.path.join(sc, "tlc", "st-%d-%d-%d-%s.cfg" % (fsz, b, k, drop)),
                                {"FILESZ": fsz, "B": b, "K": k, "DROP": drop}, spec="Spec",
                                invariants=["BlockExact", "AnswerOk", "NoLoss", "NeverNeedDropped"], constraint="Bound")
                r = tlc("Stream", cfg, os.path.join(sc, "tlc"), workers=6, timeout=900)
                if r.violated:
                    rep.violation("model:Stream:%s" % r.violated, "Stream.tla violates %s" % r.violated,
                                  {"kind": "tlc", "cmd": r.cmd, "tail": r.output[-2000:]})
                else:
                    common.tlc_must_pass(r, "Stream")
                states += r.distinct
                trans += r.generated
                tl.append({"FILESZ": fsz, "B": b, "K": k, "DROP": drop, "distinct": r.distinct})

        # ---- (a) in-process block slices
        fdir = os.path.join(sc, "blk")
        os.makedirs(fdir)
        insts, meta = [], {}
        sizes = [1, 5, 63, 64, 65, 127, 128, 129, 640, 4097] + ([150_000] if tier == "quick" else [100_001, 300_000, 1_000_000])
        for si, size in enumerate(sizes):
            blob = bytes(rng.randrange(32, 127) for _ in range(min(size, 5000)))
            if size > 5000:
                blob = (blob * (size // len(blob) + 1))[:size]
            for label, files, arg in containers(rng, "b%d.log" % si, blob, tier):
                if label.startswith("tar"):
                    continue  # tar members are addressed archive|member; covered end-to-end
                d = os.path.join(fdir, "s%d_%s" % (si, label))
                os.makedirs(d)
                for fn, data in files.items():
                    with open(os.path.join(d, fn), "wb") as f:
                        f.write(data)
                for B in ([64, 100, 4096] if tier == "quick" else [1, 7, 64, 65, 100, 128, 4096, 65536]):
                    if size > 10000 and B < 64:
                        continue
                    nb = (size + B - 1) // B
                    seq = list(range(nb + 1)) if nb <= 300 else sorted(set(rng.sample(range(nb), 60) + [0, nb - 1, nb]))
                    iid = len(insts)
                    insts.append({"id": iid, "path": os.path.join(d, arg), "blocksz": B, "reader": "block",
                                  "calls": [["block", bo] for bo in seq]})
                    meta[iid] = (blob, B, seq, label)
        chunks = [insts[i::8] for i in range(8)]

        def runchunk(ic):
            ci, chunk = ic
            inp = "\n".join(json.dumps(x) for x in chunk) + "\n"
            env = dict(os.environ)
            tpath = os.path.join(sc, "blk-trace-%d.ndjson" % ci)
            env["S4_VERIF_TRACE"] = tpath
            p = subprocess.run([exe], input=inp.encode(), stdout=subprocess.PIPE, stderr=subprocess.PIPE, timeout=3000, env=env)
            evs = [json.loads(l) for l in open(tpath)] if os.path.exists(tpath) else []
            return [json.loads(l) for l in p.stdout.decode().splitlines() if l.strip()], evs

        t0 = time.time()
        with ThreadPoolExecutor(max_workers=8) as ex:
            res_ = list(ex.map(runchunk, list(enumerate(chunks))))
        outs = [o for r_ in res_ for o in r_[0]]
        log("C05: %d block instances in %.1fs" % (len(outs), time.time() - t0))
        # I->S: the ReadBlock / Store / DropBlock events of every instance against TraceStream.tla
        trecs = []
        ninst = 0
        for _, evs in res_:
            cur = None
            for e in evs:
                if e["ev"] == "Instance":
                    cur = e["id"]
                    blob_, B_, seq_, label_ = meta[cur]
                    if len(trecs) < (6000 if tier == "quick" else 60000):
                        trecs.append({"ev": "Reset", "filesz": len(blob_), "B": B_})
                        ninst += 1
                    else:
                        cur = None
                elif cur is not None and e["ev"] in ("ReadBlock", "Store", "DropBlock"):
                    trecs.append({k: e[k] for k in e if k not in ("seq", "t")})
        traces_ok = 0
        if trecs:
            tdir = os.path.join(sc, "tvs")
            os.makedirs(tdir)
            tp = os.path.join(tdir, "blocks.ndjson")
            with open(tp, "w") as f:
                for r_ in trecs:
                    f.write(json.dumps(r_) + "\n")
            cfgp = write_cfg(tp + ".cfg", {}, spec="Spec", constraint="Progress", postcondition="Accepted")
            tr = tlc("TraceStream", cfgp, tdir, workers=1, timeout=1200, env={"TRACE": tp}, deque=True, java_opts="-Xmx4g")
            if tr.ok:
                traces_ok = ninst
            elif tr.violated == "postcondition":
                import re as _re
                m = _re.search(r'"UNMATCHED",\s*(\d+)', tr.output)
                at = int(m.group(1)) if m else None
                evx = trecs[at - 1] if at and at <= len(trecs) else None
                # which discipline is broken decides: a wrong block length / double store / re-read of a dropped block is the
                # property itself (bytes would be lost or wrong); anything else is a changed shape
                if evx and evx.get("ev") in ("Store", "ReadBlock"):
                    rep.violation("trace:blocks:%s" % evx["ev"], "BlockReader event not allowed by TraceStream.tla: %s" % evx,
                                  {"kind": "blocktrace", "event": evx, "index": at})
                else:
                    rep.note_drift("block trace not explained by TraceStream.tla at %s: %s" % (at, evx))
            else:
                common.tlc_must_pass(tr, "TraceStream")
        nblocks = 0
        for o in outs:
            blob, B, seq, label = meta[o["id"]]
            if "panic" in o or "open_err" in o:
                rep.violation("block:panic:%s" % label.split("-")[0], str(o)[:300], {"kind": "block", "label": label, "size": len(blob), "blocksz": B})
                continue
            if o.get("filesz") != len(blob):
                rep.violation("block:filesz:%s" % label.split("-")[0],
                              "%s: size learned up front %s != %d decoded bytes" % (label, o.get("filesz"), len(blob)),
                              {"kind": "block", "label": label, "size": len(blob), "blocksz": B})
                continue
            for bo, res in zip(seq, o["res"]):
                nblocks += 1
                want = blob[bo * B:(bo + 1) * B]
                ok = (res["r"] == "done") if not want else (res["r"] == "found" and bytes.fromhex(res["hex"]) == want)
                if not ok:
                    rep.violation("block:slice:%s" % label.split("-")[0],
                                  "%s blocksz %d: read_block(%d) does not return plain bytes [%d, %d)" % (label, B, bo, bo * B, bo * B + len(want)),
                                  {"kind": "block", "label": label, "size": len(blob), "blocksz": B, "bo": bo, "got": str(res)[:200]})
                    break

        # ---- (b) end-to-end: stdout(form) == stdout(plain)
        cases = []
        text_sizes = [0, 1, 30, 63, 64, 65, 200, 4096, 4097, 20_000] + ([150_000] if tier == "quick" else [110_000, 950_000])
        for ti, size in enumerate(text_sizes):
            blob = text_blob(rng, size)
            name = "t%d.log" % ti
            opts = [[], ["--blocksz", "64"], ["--blocksz", "4096"]]
            if len(blob) > 200:
                opts.append(["-a", gen.fmt_ts(gen.BASE + 2, 0, None, 0), "-b", gen.fmt_ts(gen.BASE + 40, 0, None, 0)])
            for label, files, arg in containers(rng, name, blob, tier):
                for o in (opts if tier == "thorough" else [opts[0], rng.choice(opts)]):
                    cases.append(("text:" + label, Case({name: blob}, ["--color", "never"] + o + [name]),
                                  Case(files, ["--color", "never"] + o + [arg])))
        # text whose newlines fall on the FIRST byte of a block (and, further on, on the last): read from the start, and under
        # windows that open past such lines -- a streamed form passes over them on its way to the window
        for B_ in (64, 4096):
            out_, k_ = [], 0

            def line_(total_len):
                nonlocal k_
                k_ += 1
                head = gen.fmt_ts(gen.BASE + k_, 0, None, 0).encode() + b" al=%d " % k_
                return head + b"a" * (total_len - len(head) - 1) + b"\n"
            out_.append(line_(30))
            out_.append(line_(30))
            pos = 60
            out_.append(line_((B_ - pos % B_) + B_ + 1))          # its newline is byte 0 of a block
            for _ in range(40 if B_ == 64 else 6):
                out_.append(line_(B_))                              # ... and so are these
            out_.append(line_(B_ - 1))                             # from here on: newline on the last byte of a block
            for _ in range(40 if B_ == 64 else 6):
                out_.append(line_(B_))
            for _ in range(10):
                out_.append(line_(37))
            blob = b"".join(out_)
            name = "al%d.log" % B_
            for label, files, arg in containers(rng, name, blob, tier):
                for a_ in ([None] + [gen.BASE + x for x in (4, 20, k_ // 2, k_ - 12, k_ - 3)]):
                    o = ["--blocksz", str(B_)] + (["-a", gen.fmt_ts(a_, 0, None, 0)] if a_ else [])
                    cases.append(("text:" + label, Case({name: blob}, ["--color", "never"] + o + [name]),
                                  Case(files, ["--color", "never"] + o + [arg])))
        # ... and short lines, several to a block, every fourth newline on the first byte of a block
        for B_ in (256, 1024):
            ls_ = []
            for q in range(1, 260):
                head = gen.fmt_ts(gen.BASE + q, 0, None, 0).encode() + b" sh=%d " % q
                ls_.append(head + b"s" * ((65 if q == 1 else 64) - len(head) - 1) + b"\n")
            blob = b"".join(ls_)
            assert blob[B_:B_ + 1] == b"\n"
            name = "sh%d.log" % B_
            for label, files, arg in containers(rng, name, blob, tier):
                for a_ in (None, gen.BASE + 9, gen.BASE + 130, gen.BASE + 250):
                    o = ["--blocksz", str(B_)] + (["-a", gen.fmt_ts(a_, 0, None, 0)] if a_ else [])
                    cases.append(("text:" + label, Case({name: blob}, ["--color", "never"] + o + [name]),
                                  Case(files, ["--color", "never"] + o + [arg])))
        # accounting records: small and many-block
        for ri, nrec in enumerate([1, 3, 40] + ([400] if tier == "quick" else [400, 1500])):
            blob = b"".join(c08.rec_bytes(i + 1, 1 + (i * 7) % 97, usec=i % 5) for i in range(nrec))
            for label, files, arg in containers(rng, "wtmp", blob, tier):
                for o in ([[]] if tier == "quick" else [[], ["--blocksz", "64"], ["--blocksz", "1024"]]):
                    cases.append(("utmp:" + label, Case({"wtmp": blob}, ["--color", "never"] + o + ["wtmp"]),
                                  Case(files, ["--color", "never"] + o + [arg])))
        # record files whose first records are empty (a lastlog is indexed by uid: the first entry of an ordinary user sits
        # at 1000 x 292 bytes), and record files at block sizes of a few records -- the record-type scan then runs past
        # block zero before anything is read for printing
        for nlead, recs in ((1000, [(1000, 1), (1001, 2), (1003, 2), (1010, 3)]), (3, [(3, 1), (5, 2)])):
            last = max(u for u, _ in recs)
            byuid = dict(recs)
            blob = b"".join(c08.rec_bytes(u, byuid.get(u, 0), layout="lastlog") for u in range(last + 1))
            for label, files, arg in containers(rng, "lastlog", blob, tier):
                for o in ([[]] if nlead > 100 else [[], ["--blocksz", "512"]]):
                    cases.append(("utmp:" + label, Case({"lastlog": blob}, ["--color", "never"] + o + ["lastlog"]),
                                  Case(files, ["--color", "never"] + o + [arg])))
        for nrec in (3, 12):
            blob = b"".join(c08.rec_bytes(i + 1, 1 + (i * 7) % 97, usec=i % 5) for i in range(nrec))
            for label, files, arg in containers(rng, "wtmp", blob, tier):
                for o in ([["--blocksz", "1024"]] if tier == "quick" else [["--blocksz", "512"], ["--blocksz", "2048"]]):
                    cases.append(("utmp:" + label, Case({"wtmp": blob}, ["--color", "never"] + o + ["wtmp"]),
                                  Case(files, ["--color", "never"] + o + [arg])))
        # a year-less text log is dated from the modification time: the plain file's, the one stored in the gzip header
        # (0 = "no time stamp": then the .gz file's own), the tar member's -- the dated output (-u) must be the same
        yl = b"".join(b"%s %2d %02d:%02d:%02d host app[%d]: yearless %d\n" % (mon, day, hh, mm, 7, 100 + i, i)
                      for i, (mon, day, hh, mm) in enumerate([(b"Nov", 3, 1, 2), (b"Dec", 30, 10, 0), (b"Dec", 31, 23, 59), (b"Jan", 1, 0, 0), (b"Feb", 7, 8, 9)]))
        t_true = 1675757400      # 2023-02-07T08:10:00Z, a moment after the last message
        decoy_t = t_true - 900 * 86400
        ydate = ["--color", "never", "-u", "-d", "%Y%m%dT%H%M%S"]
        for label, files, arg, mt in (
                ("yearless:gz-header-mtime", {"y.log.gz": gen.gz_bytes(yl, mtime=t_true)}, "y.log.gz", decoy_t),
                ("yearless:gz-header-mtime-fname", {"y.log.gz": gen.gz_bytes(yl, mtime=t_true, name="y.log")}, "y.log.gz", decoy_t),
                ("yearless:gz-mtime0-file-time", {"y.log.gz": gen.gz_bytes(yl, mtime=0)}, "y.log.gz", t_true),
                ("yearless:gz-mtime0-fname-file-time", {"y.log.gz": gen.gz_bytes(yl, mtime=0, name="y.log")}, "y.log.gz", t_true),
                ("yearless:tar-member-mtime", {"y.tar": gen.tar_bytes([("y.log", yl)], mtime=t_true)}, "y.tar", decoy_t)):
            for o in ([], ["-a", "2023-01-01T00:00:00+00:00"], ["-b", "2022-12-31T23:59:59+00:00"]):
                cases.append(("text:" + label, Case({"y.log": yl}, ydate + o + ["y.log"], mtimes={"y.log": t_true}),
                              Case(files, ydate + o + [arg], mtimes={arg: mt})))
        # tar with several members in every position
        for nm in (2, 3, 4) if tier == "thorough" else (3,):
            members = [("m%d.log" % j, text_blob(rng, rng.choice([80, 900, 5000]))) for j in range(nm)]
            for fmt in (tarfile.USTAR_FORMAT, tarfile.GNU_FORMAT, tarfile.PAX_FORMAT):
                files_plain = {n_: b_ for n_, b_ in members}
                cases.append(("tar:%d-members" % nm, Case(files_plain, ["--color", "never"] + [n_ for n_, _ in members]),
                              Case({"multi.tar": gen.tar_bytes(members, fmt=fmt)}, ["--color", "never", "multi.tar"])))
        # tar member names: long paths (gnu @LongLink / pax path records / ustar prefix split), non-ASCII, blanks
        longdir = "var/log/pods/" + "kube-system_coredns-5d78c9869d-abcde_0123456789abcdef0123456789abcdef" + "/coredns"
        namesets = [[longdir + "/0.log", "short.log"], ["d/" + "x" * 120 + ".log"], ["dir with blank/" + "\u00e9\u00e8 \u03c9.log", "a.log"],
                    ["p" * 90 + "/" + "q" * 90 + "/m.log", longdir + "/1.log", "z.log"]]
        # member paths that are suffixes / prefixes of one another, in both orders
        namesets = [["deep/er/sys.log", "er/sys.log", "sys.log"], ["sys.log", "er/sys.log", "sys.log.1", "xsys.log"]] + namesets
        for names in (namesets if tier == "thorough" else namesets[:5]):
            blobs = [text_blob(rng, rng.choice([80, 900, 5000])) for _ in names]
            plain = {"m%d.log" % j: b_ for j, b_ in enumerate(blobs)}
            for fmt, fl in ((tarfile.USTAR_FORMAT, "ustar"), (tarfile.GNU_FORMAT, "gnu"), (tarfile.PAX_FORMAT, "pax")):
                try:
                    arc = gen.tar_bytes(list(zip(names, blobs)), fmt=fmt)
                except ValueError:
                    continue          # the format cannot hold the name
                cases.append(("tar:names-%s" % fl, Case(plain, ["--color", "never"] + sorted(plain)),
                              Case({"names.tar": arc}, ["--color", "never", "names.tar"])))
        # shipped evtx / journal forms against their plain form
        shipped = []
        ev = "logs/programs/evtx/Microsoft-Windows-Kernel-PnP%4Configuration.evtx"
        for fm in (["gz", "xz"] if tier == "quick" else ["gz", "bz2", "xz", "lz4"]):
            shipped.append(("evtx:" + fm, ev, ev + "." + fm, "k.evtx", []))
        jr = "logs/programs/journal/Ubuntu22-user-1000x3.journal"
        for fm in (["bz2", "lz4"] if tier == "quick" else ["gz", "bz2", "xz", "lz4"]):
            shipped.append(("journal:" + fm, jr + ".gz", jr + "." + fm, "u.journal", ["--journal-output", "export"]))

        def do(ic):
            i, (label, cplain, cform) = ic
            a = cplain.run(os.path.join(sc, "e2e", "p%d" % i))
            tmp = os.path.join(sc, "e2e", "tmp%d" % i)
            os.makedirs(tmp)
            b = cform.run(os.path.join(sc, "e2e", "f%d" % i), tmpdir=tmp)
            shutil.rmtree(os.path.join(sc, "e2e", "p%d" % i), ignore_errors=True)
            shutil.rmtree(os.path.join(sc, "e2e", "f%d" % i), ignore_errors=True)
            return a, b

        t0 = time.time()
        with ThreadPoolExecutor(max_workers=8) as ex:
            runs = list(ex.map(do, list(enumerate(cases))))
        log("C05: %d e2e pairs in %.1fs" % (len(runs), time.time() - t0))
        samples = []
        nontriv = 0
        # (a pair whose plain form prints nothing compares nothing: counted, and kept a small share)
        silent_pairs = sum(1 for (label, cplain, cform), (a, b) in zip(cases, runs) if not a.out and any(len(v) > 40 for v in cplain.files.values()))
        for (label, cplain, cform), (a, b) in zip(cases, runs):
            multi = sum(len(v) for v in cplain.files.values() if v) > 65536
            if multi:
                nontriv += 1
            if b.crashed:
                rep.violation("crash:%s" % label.split("-")[0], "rc=%s %r" % (b.rc, b.err[-200:]), cform.replay_record(b))
            elif a.out != b.out:
                cform.expected = a.out
                rep.violation("differs:%s" % label.split("-")[0],
                              "%s: stdout of the stored form differs from the plain file at byte %d (plain %d bytes, form %d bytes)"
                              % (label, first_diff(a.out, b.out), len(a.out), len(b.out)), cform.replay_record(b))
            elif len(samples) < 3 and multi:
                samples.append({"kind": label, "argv": cform.argv, "plain_stdout_bytes": len(a.out)})
        # shipped files
        sdir = os.path.join(sc, "shipped")
        os.makedirs(sdir)
        for label, plain_rel, form_rel, pname, opts in shipped:
            ppath = os.path.join(sdir, pname)
            if plain_rel.endswith(".gz"):
                with open(ppath, "wb") as f:
                    subprocess.run(["gzip", "-dc", os.path.join(REPO, plain_rel)], stdout=f, check=True)
            else:
                shutil.copyfile(os.path.join(REPO, plain_rel), ppath)
            fname = pname + "." + form_rel.rsplit(".", 1)[1]
            shutil.copyfile(os.path.join(REPO, form_rel), os.path.join(sdir, fname))
            tmp = os.path.join(sdir, "tmp")
            os.makedirs(tmp, exist_ok=True)
            a = common.run_s4(["--color", "never"] + opts + [pname], cwd=sdir, timeout=120)
            b = common.run_s4(["--color", "never"] + opts + [fname], cwd=sdir, tmpdir=tmp, timeout=120)
            if b.crashed or a.out != b.out or not a.out:
                rep.violation("differs:%s" % label, "%s: compressed form prints %d bytes, plain %d bytes" % (label, len(b.out), len(a.out)),
                              {"kind": "shipped", "plain": plain_rel, "form": form_rel, "opts": opts, "rc": b.rc})
        # tar bundles of journals / event logs (members are unpacked through temp files, selected by member path): two
        # journals whose member paths are suffix-related, in both orders, and a mixed bundle
        bundles = 0
        rj = os.path.join(sdir, "r.journal")
        with open(rj, "wb") as f:
            subprocess.run(["gzip", "-dc", os.path.join(REPO, "logs/programs/journal/RHE_91_system.journal.gz")], stdout=f, check=True)
        if not os.path.exists(os.path.join(sdir, "u.journal")):
            with open(os.path.join(sdir, "u.journal"), "wb") as f:
                subprocess.run(["gzip", "-dc", os.path.join(REPO, jr + ".gz")], stdout=f, check=True)
        if not os.path.exists(os.path.join(sdir, "k.evtx")):
            shutil.copyfile(os.path.join(REPO, ev), os.path.join(sdir, "k.evtx"))
        rd = lambda n_: open(os.path.join(sdir, n_), "rb").read()
        for bi, (members, plain_argv) in enumerate([
                ([("archive/system.journal", "r.journal"), ("system.journal", "u.journal")], ["r.journal", "u.journal"]),
                ([("system.journal", "u.journal"), ("archive/system.journal", "r.journal")], ["u.journal", "r.journal"]),
                ([("logs/k.evtx", "k.evtx"), ("sub/u.journal", "u.journal"), ("u.journal", "r.journal")], ["k.evtx", "u.journal", "r.journal"]),
                # member paths beyond the 100-byte name field (GNU long-name records)
                ([("evidence/HOST-WIN11-LAB/C/Windows/System32/winevt/Logs/Microsoft-Windows-Kernel-PnP%4Configuration.evtx", "k.evtx"),
                  ("var/log/journal/0123456789abcdef0123456789abcdef/user-1000@0123456789abcdef0123456789abcdef-0000000000000001.journal", "u.journal")],
                 ["k.evtx", "u.journal"])]):
            tname = "bundle%d.tar" % bi
            with open(os.path.join(sdir, tname), "wb") as f:
                f.write(gen.tar_bytes([(mn, rd(src_)) for mn, src_ in members], fmt=tarfile.GNU_FORMAT))
            for opts in (["--journal-output", "export"], ["--journal-output", "short-iso-precise"]):
                tmp = os.path.join(sdir, "tmpb")
                os.makedirs(tmp, exist_ok=True)
                a = common.run_s4(["--color", "never"] + opts + plain_argv, cwd=sdir, timeout=300)
                b = common.run_s4(["--color", "never"] + opts + [tname], cwd=sdir, tmpdir=tmp, timeout=300)
                bundles += 1
                if b.crashed or a.out != b.out or not a.out:
                    rep.violation("differs:bundle", "tar of %s %s: archived form prints %d bytes, the plain files %d bytes (first difference at byte %d)"
                                  % ([m[0] for m in members], opts[1], len(b.out), len(a.out), first_diff(a.out, b.out)),
                                  {"kind": "bundle", "members": members, "opts": opts, "rc": b.rc})
                if os.listdir(tmp):
                    rep.violation("tempfile-left:bundle", "temp files left: %s" % os.listdir(tmp), {"kind": "bundle", "members": members})
        # journal / event log in LZ4 frames whose blocks end early (unpacked through a temp file by a copy loop of its own)
        for pname, opts in (("u.journal", ["--journal-output", "export"]), ("r.journal", ["--journal-output", "short-iso-precise"]), ("k.evtx", [])):
            for fe in ([70001] if tier == "quick" else [1000, 70001, 100000]):
                fname = "odd%d_%s.lz4" % (fe, pname)
                with open(os.path.join(sdir, fname), "wb") as f:
                    f.write(gen.lz4_bytes(rd(pname), 5, True, False, False, flush_every=fe))
                tmp = os.path.join(sdir, "tmpo")
                os.makedirs(tmp, exist_ok=True)
                a = common.run_s4(["--color", "never"] + opts + [pname], cwd=sdir, timeout=300)
                b = common.run_s4(["--color", "never"] + opts + [fname], cwd=sdir, tmpdir=tmp, timeout=300)
                bundles += 1
                if b.crashed or a.out != b.out or not a.out:
                    rep.violation("differs:lz4-flush:%s" % pname.split(".")[1], "%s in an LZ4 frame with blocks of %d bytes: prints %d bytes, the plain file %d"
                                  % (pname, fe, len(b.out), len(a.out)), {"kind": "oddlz4", "file": pname, "flush_every": fe, "rc": b.rc,
                                                                           "stderr": b.err[-200:].decode(errors="replace")})
                os.remove(os.path.join(sdir, fname))
        rep.coverage = {"states": states, "transitions": trans, "traces_validated_against_impl": traces_ok,
                        "evaluations": nblocks + len(runs) + len(shipped), "e2e_pairs": len(runs), "e2e_pairs_plain_prints_nothing": silent_pairs, "distinct_nontrivial": nontriv + len([o for o in outs if len(meta[o["id"]][0]) > meta[o["id"]][1]]),
                        "rule": "in-process: one evaluation = one read_block call on a real container compared with the plain slice; "
                                "e2e: one (plain, stored form) pair of runs; non-trivial = content larger than one block",
                        "samples": samples or [{"note": "see tlc_configs"}], "tlc_configs": tl, "block_calls": nblocks,
                        "e2e_pairs": len(runs), "shipped_pairs": len(shipped), "journal_evtx_tar_bundles": bundles, "exhaustive": False}
        rep.assumptions = ["single-stream compressed files only (multi-stream gz/xz is a documented limitation)",
                           "compressor parameters limited to what python's gzip/bz2/lzma/tarfile and lz4_flex can produce",
                           "only one non-empty .evtx and the shipped journals are available for those kinds"]
    return rep.finish()
