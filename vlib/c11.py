"""C11: year-less timestamps receive the right year.

Spec: YearWalk.tla -- the backward walk of process_missing_year (decrement-and-reparse on an apparent jump into
the future, early stop at --dt-after) against the declarative dating (last message in the year of the modification
time; stepping back one year at every forward jump of more than 25 h going up the file); TLC checks all sequences
with ties, backward jitter and several wraps.
Code: rendered RFC 3164-style logs (`Mon DD HH:MM:SS`) spanning 0..3 year boundaries with gaps under a year,
modification time set on the plain file / inside the gzip header / in the tar member header (with a misleading
container mtime), several --tz-offset zones, windows, block sizes, plain and streamed forms; the dates the program
assigns are read back with -u -d; two year-less files are merged across a New Year."""
import calendar
import json
import os
import re
import random
import time
from concurrent.futures import ThreadPoolExecutor

from . import common, gen
from .common import Reporter, Scratch, ToolError, log, tlc, write_cfg
from .e2e import Case, first_diff

MON = ["Jan", "Feb", "Mar", "Apr", "May", "Jun", "Jul", "Aug", "Sep", "Oct", "Nov", "Dec"]


def render(sec_local):
    t = time.gmtime(sec_local)
    return "%s %2d %02d:%02d:%02d" % (MON[t.tm_mon - 1], t.tm_mday, t.tm_hour, t.tm_min, t.tm_sec)


def is_feb29(sec_local):
    t = time.gmtime(sec_local)
    return t.tm_mon == 2 and t.tm_mday == 29


def make_series(rng, nmsgs, wraps, tz_min):
    """local times (seconds, as if UTC), built backwards from the last message; every gap is under 300 days; `wraps`
    large gaps (200..299 days) make the series span about that many year boundaries"""
    end_year = rng.choice([2021, 2023, 2024, 2025])
    last_local = calendar.timegm((end_year, rng.choice([1, 1, 2, 6, 12]), rng.choice([1, 2, 15, 28]), rng.randrange(24), rng.randrange(60), 7, 0, 0, 0))
    gaps = [rng.choice([1, 60, 3600, 86400, 86400 * 20, 86400 * 100]) for _ in range(max(0, nmsgs - 1))]
    for k in rng.sample(range(len(gaps)), min(len(gaps), 2 * wraps)):
        gaps[k] = 86400 * rng.randrange(200, 300)
    locs = [last_local]
    for g in gaps:
        locs.append(locs[-1] - g)
    locs.reverse()
    # small backward jitter (under a day) now and then: two neighbours less than 12 h apart change places
    for k in range(0, len(locs) - 1):
        # (not across a New Year: "Jan 1 00:00 / Dec 31 23:00 / Jan 1 00:00:01" can be dated in two ways that both keep
        #  time from running backwards by more than a day -- the property does not say which)
        if rng.random() < 0.15 and 0 < locs[k + 1] - locs[k] < 12 * 3600 and time.gmtime(locs[k]).tm_year == time.gmtime(locs[k + 1]).tm_year:
            locs[k], locs[k + 1] = locs[k + 1], locs[k]
    # the documented limitation (Issue #245) is excluded: no series with a 29 February message that is followed by a
    # message of a later year (the series is drawn again rather than thinned, which would merge two gaps)
    years = [time.gmtime(x).tm_year for x in locs]
    if any(is_feb29(x) and years[-1] > y for x, y in zip(locs, years)):
        return make_series(rng, nmsgs, wraps, tz_min)
    return locs


def run(pid, tier, seed):
    rep = Reporter(pid, tier, seed, "model_checking")
    rng = random.Random(seed * 9973 + 11)
    common.build_s4()
    common.build_harness(["mk_lz4"])
    with Scratch(pid) as sc:
        consts = {"YL": 6, "TH": 1, "MaxN": 4 if tier == "quick" else 5, "Y0": 10}
        cfg = write_cfg(os.path.join(sc, "tlc", "yw.cfg"), consts, spec="Spec", invariants=["Correct", "WindowCovered", "YearSane"],
                        properties=["Terminates"])
        r = tlc("YearWalk", cfg, os.path.join(sc, "tlc"), workers=8, timeout=1500)
        if r.violated:
            rep.violation("model:YearWalk:%s" % r.violated, "YearWalk.tla violates %s" % r.violated, {"kind": "tlc", "cmd": r.cmd})
        else:
            common.tlc_must_pass(r, "YearWalk")

        nfiles = 40 if tier == "quick" else 600
        cases = []
        for fi in range(nfiles):
            tz_min = rng.choice([0, 0, 540, -480, 330])
            wraps = rng.choice([0, 0, 1, 1, 2, 3])
            locs = make_series(rng, rng.choice([1, 2, 3, 6, 12, 30]), wraps, tz_min)
            # always included: a 29 February message whose predecessor lies in the year before (the last message is in
            # the leap year itself, so this is not the documented Issue #245 exclusion)
            forced = [[(2023, 6, 30, 23, 6, 7), (2024, 2, 29, 23, 6, 7), (2024, 12, 2, 23, 6, 7)],
                      [(2023, 12, 31, 23, 0, 0), (2024, 2, 29, 0, 0, 0), (2024, 2, 29, 12, 0, 0)],
                      [(2019, 3, 1, 1, 2, 3), (2019, 11, 5, 1, 2, 3), (2020, 2, 29, 4, 5, 6), (2020, 3, 1, 0, 0, 1)],
                      # (a century year that IS a leap year, and the wrap into it)
                      [(1999, 12, 30, 10, 0, 0), (2000, 2, 27, 1, 0, 0), (2000, 2, 29, 12, 0, 0), (2000, 3, 1, 0, 0, 0)],
                      [(2000, 2, 28, 23, 59, 59), (2000, 2, 29, 0, 0, 0), (2000, 12, 31, 23, 59, 59)],
                      # (sparse logs: the messages either side of a New Year lie eleven to twelve months apart, in the SAME
                      #  calendar month or with the later one in a later month -- the year still steps back between them)
                      [(2020, 1, 20, 8, 0, 0), (2021, 1, 5, 8, 0, 0), (2021, 1, 6, 9, 0, 0)],
                      [(2019, 12, 25, 1, 0, 0), (2020, 12, 3, 1, 0, 0), (2021, 11, 30, 1, 0, 0), (2021, 12, 1, 1, 0, 0)],
                      [(2020, 6, 15, 12, 0, 0), (2021, 6, 1, 12, 0, 0)],
                      [(2021, 3, 31, 23, 0, 0), (2022, 3, 1, 0, 0, 0), (2022, 3, 2, 0, 0, 0)],
                      [(2022, 5, 9, 5, 5, 5), (2023, 5, 6, 5, 5, 4), (2024, 5, 3, 5, 5, 3)],
                      # (several messages within one second, before and after a New Year: a window may open exactly on them)
                      [(2023, 12, 30, 10, 0, 0), (2023, 12, 31, 23, 59, 59), (2023, 12, 31, 23, 59, 59), (2023, 12, 31, 23, 59, 59),
                       (2024, 1, 1, 0, 0, 5), (2024, 1, 1, 0, 0, 5), (2024, 1, 2, 8, 0, 0)],
                      [(2024, 3, 1, 1, 1, 1), (2024, 3, 2, 2, 2, 2), (2024, 3, 2, 2, 2, 2), (2024, 3, 3, 3, 3, 3), (2024, 3, 3, 3, 3, 3), (2024, 3, 3, 3, 3, 3)]]
            if fi < len(forced):
                locs = [calendar.timegm(x + (0, 0, 0)) for x in forced[fi]]
                wraps = 1
            if not locs:
                continue
            letter = "A"
            lines = [("%s host%d prog[%d]: src=%s idx=%d\n" % (render(x), fi, 100 + i, letter, i)).encode() for i, x in enumerate(locs)]
            blob = b"".join(lines)
            true_utc = [x - tz_min * 60 for x in locs]
            # modification time: at or after the last message, inside the last message's (local) year
            last = locs[-1]
            ly = time.gmtime(last).tm_year
            end_of_year = calendar.timegm((ly, 12, 31, 23, 59, 59, 0, 0, 0))
            start_of_year = calendar.timegm((ly, 1, 1, 0, 0, 0, 0, 0, 0))
            mt_local = rng.choice([last, last + 1, min(end_of_year, last + 86400 * 3), end_of_year - rng.randrange(0, 3600)])
            mt_local = min(max(mt_local, last), end_of_year)      # (in the last message's year, by the property's own premise)
            if fi % 4 == 3:
                # ... which may be EARLIER in that year than the last messages (a file restored or copied with an older time
                # stamp, a header time taken from elsewhere): the time supplies the year, nothing more
                mt_local = max(start_of_year, rng.choice([last - 86400 * 3, last - 86400 * 40, start_of_year + rng.randrange(0, 86400)]))
            mtime = mt_local - tz_min * 60
            # (every stored form comes round with every block size: not left to chance)
            CONTS = ["plain", "gz", "bz2", "tar", "xz", "gz-fname", "lz4", "gz-mtime0", "plain"]
            cont = CONTS[fi % len(CONTS)]
            name = "y%d.log" % fi
            decoy = mtime - 86400 * 900  # a misleading container mtime
            if cont == "plain":
                files, arg, mtimes = {name: blob}, name, {name: mtime}
            elif cont == "gz":
                # header without the optional file name field (logrotate, `gzip < f`), time stamp in the header
                files, arg, mtimes = {name + ".gz": gen.gz_bytes(blob, mtime=mtime)}, name + ".gz", {name + ".gz": decoy}
            elif cont == "gz-fname":
                files, arg, mtimes = {name + ".gz": gen.gz_bytes(blob, mtime=mtime, name=name)}, name + ".gz", {name + ".gz": decoy}
            elif cont == "gz-mtime0":
                # header time stamp 0 = "no time stamp available" (gzip -n, RFC 1952): the file's own modification time counts
                files, arg, mtimes = {name + ".gz": gen.gz_bytes(blob, mtime=0, name=rng.choice([None, name]))}, name + ".gz", {name + ".gz": mtime}
            elif cont in ("bz2", "xz", "lz4"):
                # no time stamp of their own: the compressed file's modification time counts
                data_ = {"bz2": lambda: gen.bz2_bytes(blob, 1), "xz": lambda: gen.xz_bytes(blob), "lz4": lambda: gen.lz4_bytes(blob)}[cont]()
                files, arg, mtimes = {name + "." + cont: data_}, name + "." + cont, {name + "." + cont: mtime}
            else:
                files, arg, mtimes = {"y%d.tar" % fi: gen.tar_bytes([(name, blob)], mtime=mtime)}, "y%d.tar" % fi, {"y%d.tar" % fi: decoy}
            tzs = "%s%02d:%02d" % ("+" if tz_min >= 0 else "-", abs(tz_min) // 60, abs(tz_min) % 60)
            B = [64, 4096, 128, 65536][(fi // len(CONTS)) % 4]
            base = ["--tz-offset=" + tzs, "--color", "never", "--blocksz", str(B), "-u", "-d", "%Y%m%dT%H%M%S"]
            exp_lines = [time.strftime("%Y%m%dT%H%M%S", time.gmtime(u)).encode() + b":" + l for u, l in zip(true_utc, lines)]
            walk = {"locs": locs, "tz_min": tz_min, "y0": time.gmtime(mt_local).tm_year, "fos": [sum(len(x) for x in lines[:j]) for j in range(len(lines))]}
            cases.append((Case(files, base + [arg], b"".join(exp_lines), mtimes=mtimes, tz_args=False,
                               note={"tz": tzs, "container": cont, "wraps": time.gmtime(locs[-1]).tm_year - time.gmtime(locs[0]).tm_year, "blocksz": B, "n": len(locs),
                                     "walk": dict(walk, A=-1)}), "dates"))
            # a window in absolute dates selects by the inferred dates
            if len(locs) >= 3 and all(locs[j] <= locs[j + 1] for j in range(len(locs) - 1)):
                # (windows only on chronological series: C03's scope)
                tie_starts = [j for j in range(len(locs) - 1) if locs[j] == locs[j + 1] and (j == 0 or locs[j - 1] != locs[j])]
                for k in [rng.randrange(len(locs))] + ([len(locs) - 1, len(locs) - 2] if fi % 4 == 3 else []) + tie_starts[:3]:
                    a = true_utc[k]
                    sel = [e for u, e in zip(true_utc, exp_lines) if u >= a]
                    cases.append((Case(files, base + ["-a", gen.fmt_ts(a, 0, 0, 0), arg], b"".join(sel), mtimes=mtimes, tz_args=False,
                                       note={"tz": tzs, "container": cont, "wraps": wraps, "blocksz": B, "window_from": k, "walk": dict(walk, A=a)}), "window"))
        # merge of two year-less files across a New Year
        for mi in range(6 if tier == "quick" else 60):
            y = rng.choice([2022, 2024])
            a_loc = [calendar.timegm((y - 1, 12, 31, 23, 50 + i, 0, 0, 0, 0)) for i in range(5)] + [calendar.timegm((y, 1, 1, 0, 5, 0, 0, 0, 0))]
            b_loc = [calendar.timegm((y - 1, 12, 31, 23, 52, 30, 0, 0, 0)), calendar.timegm((y, 1, 1, 0, 1, 0, 0, 0, 0)), calendar.timegm((y, 1, 1, 0, 7, 0, 0, 0, 0))]
            fa = [("%s hostA p: src=A idx=%d\n" % (render(x), i)).encode() for i, x in enumerate(a_loc)]
            fb = [("%s hostB p: src=B idx=%d\n" % (render(x), i)).encode() for i, x in enumerate(b_loc)]
            merged = sorted([(x, 0, l) for x, l in zip(a_loc, fa)] + [(x, 1, l) for x, l in zip(b_loc, fb)], key=lambda t: (t[0], t[1]))
            exp = b"".join(time.strftime("%Y%m%dT%H%M%S", time.gmtime(x)).encode() + b":" + l for x, _, l in merged)
            cases.append((Case({"a.log": b"".join(fa), "b.log": b"".join(fb)},
                               ["--tz-offset=+00:00", "--color", "never", "-u", "-d", "%Y%m%dT%H%M%S", "a.log", "b.log"], exp,
                               mtimes={"a.log": a_loc[-1] + 60, "b.log": b_loc[-1] + 3600}, tz_args=False, note={"merge": True}), "merge"))

        def do(ic):
            i, (case, kind) = ic
            return case.run(os.path.join(sc, "e2e", "c%d" % i), trace=("walk" in case.note))

        t0 = time.time()
        with ThreadPoolExecutor(max_workers=10) as ex:
            runs = list(ex.map(do, list(enumerate(cases))))
        log("C11: %d runs in %.1fs" % (len(runs), time.time() - t0))
        nontriv = 0
        samples = []
        for (case, kind), rr in zip(cases, runs):
            if case.note.get("wraps") or kind == "merge":
                nontriv += 1
            if rr.crashed:
                rep.violation("crash", "rc=%s %r" % (rr.rc, rr.err[-200:]), case.replay_record(rr))
            elif rr.out != case.expected:
                d = first_diff(rr.out, case.expected)
                rep.violation("%s:%s" % (kind, case.note.get("container", "plain")),
                              "%s (%s): dated output differs at byte %d: got %r want %r"
                              % (kind, {k_: v_ for k_, v_ in case.note.items() if k_ != "walk"}, d, rr.out[max(0, d - 20):d + 30],
                                 case.expected[max(0, d - 20):d + 30]), case.replay_record(rr))
            elif len(samples) < 3 and case.note.get("wraps", 0) >= 2:
                samples.append({"note": case.note, "first_line": case.expected.split(b"\n")[0].decode(), "last_line": case.expected.split(b"\n")[-2].decode()})
        # I->S: the recorded steps of process_missing_year of every run against TraceYearWalk.tla, with the table of real
        # calendar instants of the rendered file (message k read with the modification time's year, the year before, ...)
        recs = []
        nwalks = 0
        for (case, kind), rr in zip(cases, runs):
            w = case.note.get("walk")
            if not w or rr.crashed or rr.out != case.expected:
                continue
            evs = [e for e in rr.trace if e.get("ev", "").startswith("Yw")]
            if not evs:
                rep.note_drift("no YearWalk events recorded for a year-less file (hooks missing?)")
                continue
            nyears = (time.gmtime(w["locs"][-1]).tm_year - time.gmtime(w["locs"][0]).tm_year) + 5

            def read_in(t, y):
                # a February 29 read with a year that is not a leap year belongs to the latest leap year not after it
                if t.tm_mon == 2 and t.tm_mday == 29:
                    while not calendar.isleap(y):
                        y -= 1
                return calendar.timegm((y, t.tm_mon, t.tm_mday, t.tm_hour, t.tm_min, t.tm_sec, 0, 0, 0)) - w["tz_min"] * 60
            tab = []
            for x in w["locs"]:
                t = time.gmtime(x)
                tab.append([read_in(t, w["y0"] - j) for j in range(nyears)])
            recs.append({"ev": "Reset", "n": len(w["locs"]), "fos": w["fos"], "abs": tab, "A": w["A"], "year": 0, "fo": 0, "ds": 0, "why": 0})
            for e in evs:
                recs.append({"ev": e["ev"], "n": 0, "fos": [], "abs": [], "A": 0, "year": (e.get("year", w["y0"]) - w["y0"]) if "year" in e else 0,
                             "fo": e.get("fo", 0), "ds": e.get("ds", 0), "why": e.get("why", 0)})
            nwalks += 1
        walks_ok = 0
        if recs:
            tdir = os.path.join(sc, "tv")
            os.makedirs(tdir, exist_ok=True)
            tp = os.path.join(tdir, "yw.ndjson")
            with open(tp, "w") as f:
                for x in recs:
                    f.write(json.dumps(x) + "\n")
            tcfg = write_cfg(os.path.join(tdir, "tyw.cfg"), {"YL": 1, "TH": 25 * 3600, "MaxN": 64, "Y0": 0}, spec="TSpec",
                             invariants=["TraceInv"], constraint="Progress", postcondition="Accepted")
            tr = tlc("TraceYearWalk", tcfg, tdir, workers=1, timeout=900, env={"TRACE": tp}, deque=True, java_opts="-Xmx3g")
            if tr.ok:
                walks_ok = nwalks
            elif tr.violated and tr.violated != "postcondition":
                rep.violation("trace:YearWalk:%s" % tr.violated, "a recorded year walk violates %s of YearWalk.tla on the real calendar table" % tr.violated,
                              {"kind": "tlc-trace", "cmd": tr.cmd, "tail": tr.output[-1500:]})
            else:
                m = re.search(r'"UNMATCHED",\s*(\d+)', tr.output)
                k = int(m.group(1)) if m else 0
                rep.note_drift("year-walk trace not explained by YearWalk.tla at record %s: %s" % (k, recs[k - 1] if 0 < k <= len(recs) else None))
        rep.coverage = {"states": r.distinct, "transitions": r.generated, "traces_validated_against_impl": walks_ok,
                        "evaluations": len(runs), "distinct_nontrivial": nontriv,
                        "rule": "one evaluation = one run on a rendered year-less log (or a two-file merge); non-trivial = the log spans at "
                                "least one year boundary", "samples": samples, "exhaustive": False, "checker_cmd": r.cmd}
        rep.assumptions = ["gaps between consecutive messages under one year", "excluded as documented (Issue #245): a 29 February "
                           "message followed by a message of a later year", "modification time at or after the last message, in its year"]
    return rep.finish()
