"""C04: timestamps are interpreted as the instant they denote.

Spec: Instant.tla -- proleptic-Gregorian day arithmetic and offset application as <<days, second of day, nanos>>;
TLC checks the calendar lemmas on 1970..2099 and evaluates InstantOf on abstract timestamps (the specification's
answer).  An independent implementation (Python calendar arithmetic) is cross-checked against it (oracle self-test).
Code: a notation table renders each abstract timestamp (RFC 3339 / ISO 8601 variants, RFC 5424, year-first RFC 3164,
RFC 2822, epoch, ad-hoc forms with named month or zone abbreviation; single/double-digit days, case variants of
names, 0..9 fractional digits, numeric offsets in 15-minute steps, abbreviations, no zone); one file per notation
is run through `s4 -u -d %Y%m%dT%H%M%S%.9f` under several --tz-offset values and the prepended instant must equal
InstantOf.  This property is a decode function: the model is an executable definition and generator, the assurance
is that of exhaustive / boundary enumeration."""
import calendar
import json
import os
import random
import time
from concurrent.futures import ThreadPoolExecutor

from . import common
from .common import Reporter, Scratch, ToolError, log, tlc, write_cfg

MON = ["Jan", "Feb", "Mar", "Apr", "May", "Jun", "Jul", "Aug", "Sep", "Oct", "Nov", "Dec"]
WDAY = ["Mon", "Tue", "Wed", "Thu", "Fri", "Sat", "Sun"]
# zone abbreviations with one generally agreed meaning (an independent table; calibrated once: the unchanged tree agrees on
# every one of them; MAGT is left out -- the tree's table has +12:00, Magadan has been +11:00 since 2016)
ABBR = {"ACDT": 630, "ACST": 570, "AEDT": 660, "AEST": 600, "AFT": 270, "AKDT": -480, "AKST": -540, "ART": -180, "AWST": 480, "AZOT": -60,
        "AZT": 240, "BOT": -240, "BRT": -180, "BTT": 360, "CAT": 120, "CEST": 120, "CET": 60, "CHAST": 765, "CLT": -240, "COT": -300,
        "CVT": -60, "EAT": 180, "EDT": -240, "EEST": 180, "EET": 120, "EST": -300, "FJT": 720, "GMT": 0, "HDT": -540, "HKT": 480, "HST": -600,
        "ICT": 420, "IDT": 180, "IRKT": 480, "IRST": 210, "JST": 540, "KRAT": 420, "KST": 540, "LINT": 840, "MART": -570, "MDT": -360,
        "MMT": 390, "MSK": 180, "NDT": -150, "NPT": 345, "NST": -210, "NZDT": 780, "NZST": 720, "OMST": 360, "PDT": -420, "PET": -300,
        "PETT": 720, "PHT": 480, "PKT": 300, "PST": -480, "SAST": 120, "SGT": 480, "TOT": 780, "TRT": 180, "UTC": 0, "UYT": -180,
        "UZT": 300, "VET": -240, "VLAT": 600, "WAT": 60, "WEST": 60, "WET": 0, "WIB": 420, "WIT": 540, "WITA": 480, "YAKT": 540, "YEKT": 300}
AMBIG = ["IST", "ACT", "CDT", "GST", "SST"]


def offs(off, colon):
    sign = "+" if off >= 0 else "-"
    a = abs(off)
    return "%s%02d%s%02d" % (sign, a // 60, ":" if colon else "", a % 60)


def frac_s(nanos, digits):
    return ("." + ("%09d" % nanos)[:digits]) if digits else ""


def casev(s, mode):
    return s if mode == 0 else (s.upper() if mode == 1 else s.lower())


def wd(y, m, d):
    return WDAY[calendar.weekday(y, m, d)]


# each notation: (name, zone kind: "num" | "none" | "abbr" | "epoch", max fraction digits, render(ts) -> str)
def notations():
    N = []
    N.append(("rfc3339", "num", 9, lambda t: "%04d-%02d-%02dT%02d:%02d:%02d%s%s" % (t["y"], t["m"], t["d"], t["H"], t["M"], t["S"], frac_s(t["n"], t["fd"]), offs(t["off"], True))))
    N.append(("rfc3339_blank", "num", 9, lambda t: "%04d-%02d-%02dT%02d:%02d:%02d%s %s" % (t["y"], t["m"], t["d"], t["H"], t["M"], t["S"], frac_s(t["n"], t["fd"]), offs(t["off"], True))))
    N.append(("rfc3339_space_colon", "num", 9, lambda t: "%04d-%02d-%02d %02d:%02d:%02d%s %s" % (t["y"], t["m"], t["d"], t["H"], t["M"], t["S"], frac_s(t["n"], t["fd"]), offs(t["off"], True))))
    N.append(("rfc3339_Z", "utc", 9, lambda t: "%04d-%02d-%02dT%02d:%02d:%02d%sZ" % (t["y"], t["m"], t["d"], t["H"], t["M"], t["S"], frac_s(t["n"], t["fd"]))))
    N.append(("rfc3339_space", "num", 6, lambda t: "%04d-%02d-%02d %02d:%02d:%02d%s %s" % (t["y"], t["m"], t["d"], t["H"], t["M"], t["S"], frac_s(t["n"], t["fd"]), offs(t["off"], False))))
    N.append(("comma_ms", "num", 3, lambda t: "%04d-%02d-%02d %02d:%02d:%02d,%s %s" % (t["y"], t["m"], t["d"], t["H"], t["M"], t["S"], ("%09d" % t["n"])[:3], offs(t["off"], True))))
    N.append(("iso_compact", "num", 6, lambda t: "%04d%02d%02dT%02d%02d%02d%s%s" % (t["y"], t["m"], t["d"], t["H"], t["M"], t["S"], frac_s(t["n"], t["fd"]), offs(t["off"], False))))
    N.append(("rfc5424", "num", 6, lambda t: "<34>1 %04d-%02d-%02dT%02d:%02d:%02d%s%s host app 1 ID47 -" % (t["y"], t["m"], t["d"], t["H"], t["M"], t["S"], frac_s(t["n"], t["fd"]), offs(t["off"], True))))
    N.append(("rfc3164_year_first", "none", 0, lambda t: "%04d %s %s %02d:%02d:%02d host app:" % (t["y"], casev(MON[t["m"] - 1], t["cm"]), ("%2d" if t["dd"] == 0 else "%02d") % t["d"], t["H"], t["M"], t["S"])))
    N.append(("rfc2822", "num", 0, lambda t: "%s, %02d %s %04d %02d:%02d:%02d %s" % (casev(wd(t["y"], t["m"], t["d"]), t["cm"]), t["d"], casev(MON[t["m"] - 1], t["cm"]), t["y"], t["H"], t["M"], t["S"], offs(t["off"], False))))
    N.append(("epoch_ms", "epoch", 3, lambda t: "%d.%s" % (t["epoch"], ("%09d" % t["n"])[:3])))
    N.append(("slash", "none", 0, lambda t: "%04d/%02d/%02d %02d:%02d:%02d" % (t["y"], t["m"], t["d"], t["H"], t["M"], t["S"])))
    N.append(("bracket", "num", 3, lambda t: "[%04d-%02d-%02d %02d:%02d:%02d.%s %s]" % (t["y"], t["m"], t["d"], t["H"], t["M"], t["S"], ("%09d" % t["n"])[:3], offs(t["off"], False))))
    N.append(("named_tz", "abbr", 0, lambda t: "%04d-%02d-%02d %02d:%02d:%02d %s" % (t["y"], t["m"], t["d"], t["H"], t["M"], t["S"], t["abbr"])))
    N.append(("wday_mon", "none", 0, lambda t: "%s %s %s %02d:%02d:%02d %04d" % (casev(wd(t["y"], t["m"], t["d"]), t["cm"]), casev(MON[t["m"] - 1], t["cm"]), ("%2d" if t["dd"] == 0 else "%02d") % t["d"], t["H"], t["M"], t["S"], t["y"])))
    N.append(("wday_mon_tz", "abbr", 0, lambda t: "%s %s %02d %02d:%02d:%02d %s %04d" % (wd(t["y"], t["m"], t["d"]), MON[t["m"] - 1], t["d"], t["H"], t["M"], t["S"], t["abbr"], t["y"])))
    # --- forms found in the wild (web servers, package managers, hypervisors, key=value and JSON loggers, level prefixes),
    #     kept if the unchanged tree recognises them (calibrated once; unrecognised candidates are listed in DESIGN.md)
    D = lambda t: (t["y"], t["m"], t["d"], t["H"], t["M"], t["S"])
    F = lambda t: frac_s(t["n"], t["fd"])
    N.append(("iso_T_nozone", "none", 6, lambda t: "%04d-%02d-%02dT%02d:%02d:%02d%s" % (D(t) + (F(t),))))
    N.append(("iso_sp_nozone", "none", 6, lambda t: "%04d-%02d-%02d %02d:%02d:%02d%s" % (D(t) + (F(t),))))
    N.append(("iso_sp_comma_nozone", "none", 3, lambda t: "%04d-%02d-%02d %02d:%02d:%02d,%s" % (D(t) + (("%09d" % t["n"])[:3],))))
    N.append(("apache_clf", "num", 0, lambda t: '127.0.0.1 - - [%02d/%s/%04d:%02d:%02d:%02d %s] "GET / HTTP/1.1" 200' % (t["d"], MON[t["m"] - 1], t["y"], t["H"], t["M"], t["S"], offs(t["off"], False))))
    N.append(("clf_start", "num", 0, lambda t: '[%02d/%s/%04d:%02d:%02d:%02d %s] GET' % (t["d"], MON[t["m"] - 1], t["y"], t["H"], t["M"], t["S"], offs(t["off"], False))))
    N.append(("apache_err", "none", 6, lambda t: '[%s %s %02d %02d:%02d:%02d%s %04d] [core:notice]' % (wd(t["y"], t["m"], t["d"]), MON[t["m"] - 1], t["d"], t["H"], t["M"], t["S"], F(t), t["y"])))
    N.append(("long_month", "none", 0, lambda t: '%s, %s %d, %04d %02d:%02d:%02d' % (LWDAY[calendar.weekday(t["y"], t["m"], t["d"])], LMON[t["m"] - 1], t["d"], t["y"], t["H"], t["M"], t["S"])))
    N.append(("compact_sp", "none", 0, lambda t: '%04d%02d%02d %02d%02d%02d msg' % D(t)))
    N.append(("compact_dash", "none", 0, lambda t: '%04d%02d%02d-%02d%02d%02d msg' % D(t)))
    N.append(("compact_T_nozone", "none", 0, lambda t: '%04d%02d%02dT%02d%02d%02d msg' % D(t)))
    N.append(("underscore", "none", 0, lambda t: '%04d-%02d-%02d_%02d:%02d:%02d msg' % D(t)))
    N.append(("iso_hour_off", "numh", 6, lambda t: "%04d-%02d-%02dT%02d:%02d:%02d%s%s" % (D(t) + (F(t), ("+" if t["off"] >= 0 else "-") + "%02d" % (abs(t["off"]) // 60)))))
    N.append(("kv_time", "utc", 6, lambda t: 'time="%04d-%02d-%02dT%02d:%02d:%02d%sZ" level=info msg=x' % (D(t) + (F(t),))))
    N.append(("json_ts", "utc", 3, lambda t: '{"timestamp":"%04d-%02d-%02dT%02d:%02d:%02d%sZ","level":"info"}' % (D(t) + (F(t),))))
    N.append(("level_prefix", "none", 3, lambda t: 'INFO %04d-%02d-%02d %02d:%02d:%02d%s worker' % (D(t) + (F(t),))))
    N.append(("level_bracket", "none", 0, lambda t: '[INFO] %04d-%02d-%02d %02d:%02d:%02d worker' % D(t)))
    N.append(("level_colon", "none", 0, lambda t: 'ERROR: %04d-%02d-%02d %02d:%02d:%02d worker' % D(t)))
    N.append(("host_prefix", "num", 0, lambda t: 'host1 %04d-%02d-%02dT%02d:%02d:%02d%s app' % (D(t) + (offs(t["off"], True),))))
    N.append(("pacman", "num", 0, lambda t: '[%04d-%02d-%02dT%02d:%02d:%02d%s] [ALPM] installed' % (D(t) + (offs(t["off"], False),))))
    N.append(("dpkg", "none", 0, lambda t: '%04d-%02d-%02d %02d:%02d:%02d status installed x' % D(t)))
    N.append(("apt_start", "none", 0, lambda t: 'Start-Date: %04d-%02d-%02d  %02d:%02d:%02d' % D(t)))
    N.append(("vmware", "utc", 3, lambda t: '%04d-%02d-%02dT%02d:%02d:%02d%sZ| vmx| I125: x' % (D(t) + (F(t),))))
    N.append(("win_cbs", "none", 0, lambda t: '%04d-%02d-%02d %02d:%02d:%02d, Info                  CBS    x' % D(t)))
    N.append(("pri_iso", "num", 0, lambda t: '<14>%04d-%02d-%02dT%02d:%02d:%02d%s host app' % (D(t) + (offs(t["off"], True),))))
    N.append(("iso_tz_utcword", "num", 0, lambda t: '%04d-%02d-%02d %02d:%02d:%02d %s UTC msg' % (D(t) + (offs(t["off"], False),))))
    N.append(("iso_T_abbr", "abbr", 0, lambda t: '%04d-%02d-%02dT%02d:%02d:%02d %s msg' % (D(t) + (t["abbr"],))))
    N.append(("wday_iso", "num", 0, lambda t: '%s %04d-%02d-%02d %02d:%02d:%02d %s msg' % ((wd(t["y"], t["m"], t["d"]),) + D(t) + (offs(t["off"], False),))))
    N.append(("yyyy_mon_dd_sp", "num", 0, lambda t: '%04d %s %02d %02d:%02d:%02d %s msg' % (t["y"], MON[t["m"] - 1], t["d"], t["H"], t["M"], t["S"], offs(t["off"], True))))
    N.append(("mid_line", "num", 0, lambda t: 'kernel: something happened at %04d-%02d-%02dT%02d:%02d:%02d%s ok' % (D(t) + (offs(t["off"], True),))))
    N.append(("epoch_s", "epoch", 0, lambda t: '%d msg' % t["epoch"]))
    # Unix-epoch values with longer fractions (strace -ttt style) and inside an audit record: absolute instants, whatever
    # the fallback zone
    N.append(("epoch_us", "epoch", 3, lambda t: "%d.%s000 execve(...)" % (t["epoch"], ("%09d" % t["n"])[:3])))
    N.append(("epoch_ns", "epoch", 3, lambda t: "%d.%s000000 read(3, ...)" % (t["epoch"], ("%09d" % t["n"])[:3])))
    N.append(("epoch_audit", "epoch", 3, lambda t: "type=SYSCALL msg=audit(%d.%s:%d): arch=c000003e syscall=59" % (t["epoch"], ("%09d" % t["n"])[:3], 1000 + t["S"])))
    # level / weekday, month-day with a dash, time, year, zone name (FedoraRemix29 hawkeye.log family)
    N.append(("hawkeye_level", "abbr", 0, lambda t: 'INFO %s-%02d %02d:%02d:%02d %04d %s something' % (MON[t["m"] - 1], t["d"], t["H"], t["M"], t["S"], t["y"], t["abbr"])))
    N.append(("hawkeye_bracket", "abbr", 0, lambda t: '[ERROR] %s-%02d %02d:%02d:%02d %04d %s something' % (MON[t["m"] - 1], t["d"], t["H"], t["M"], t["S"], t["y"], t["abbr"])))
    N.append(("hawkeye_wday", "abbr", 0, lambda t: '%s %s-%02d %02d:%02d:%02d %04d %s something' % (wd(t["y"], t["m"], t["d"]), MON[t["m"] - 1], t["d"], t["H"], t["M"], t["S"], t["y"], t["abbr"])))
    N.append(("hawkeye_nozone", "none", 0, lambda t: 'WARN %s-%02d %02d:%02d:%02d %04d something' % (MON[t["m"] - 1], t["d"], t["H"], t["M"], t["S"], t["y"])))
    return N


LMON = ["January", "February", "March", "April", "May", "June", "July", "August", "September", "October", "November", "December"]
LWDAY = ["Monday", "Tuesday", "Wednesday", "Thursday", "Friday", "Saturday", "Sunday"]


def days_from_civil(y, m, d):
    return calendar.timegm((y, m, d, 0, 0, 0, 0, 0, 0)) // 86400


def instant(t, fallback_min, zonekind):
    """independent implementation -> (days, sod, nanos)"""
    if zonekind == "epoch":
        return (t["epoch"] // 86400, t["epoch"] % 86400, (t["n"] // 10**6) * 10**6)
    if zonekind == "utc":
        off = 0
    elif zonekind == "num":
        off = t["off"]
    elif zonekind == "numh":      # hour-only offset (+HH): the minutes of the abstract offset are not written
        off = (abs(t["off"]) // 60) * 60 * (1 if t["off"] >= 0 else -1)
    elif zonekind == "abbr":
        off = ABBR.get(t["abbr"], fallback_min)
    else:
        off = fallback_min
    sod = t["H"] * 3600 + t["M"] * 60 + t["S"] - off * 60
    days = days_from_civil(t["y"], t["m"], t["d"])
    while sod < 0:
        sod += 86400
        days -= 1
    while sod >= 86400:
        sod -= 86400
        days += 1
    return (days, sod, t["n"])


def fmt_instant(days, sod, nanos):
    tt = time.gmtime(days * 86400 + sod)
    return "%04d%02d%02dT%02d%02d%02d.%09d" % (tt.tm_year, tt.tm_mon, tt.tm_mday, tt.tm_hour, tt.tm_min, tt.tm_sec, nanos)


def stamps(rng, tier):
    """abstract timestamps: boundary days/seconds, leap days, all 15-minute offsets, fraction lengths, abbreviations"""
    days = []
    for y in range(1970, 2100):
        for m in range(1, 13):
            last = calendar.monthrange(y, m)[1]
            if tier == "thorough":
                days += [(y, m, d) for d in range(1, last + 1)]
            else:
                if y in (1970, 1971, 1999, 2000, 2023, 2024, 2037, 2038, 2039, 2098, 2099) or (m in (1, 2, 3, 12) and y % 10 == 0):
                    days += [(y, m, 1), (y, m, last)] + ([(y, 2, 28), (y, 2, 29)] if m == 2 and last == 29 else [])
    days = [d for d in days if (1970, 1, 2) <= d <= (2099, 12, 30)]
    if tier == "quick":
        extra = [(rng.randrange(1970, 2100), rng.randrange(1, 13), rng.randrange(1, 29)) for _ in range(150)]
        days = sorted(set(days + extra))
    secs = [0, 1, 59, 60, 3599, 3600, 43199, 43200, 86340, 86399]
    offsets = list(range(-12 * 60, 14 * 60 + 1, 15))
    out = []
    for (y, m, d) in days:
        for _ in range(1 if tier == "thorough" else 2):
            s = rng.choice(secs) if rng.random() < 0.7 else rng.randrange(86400)
            fd = rng.randrange(0, 10)
            n = int(("%09d" % rng.randrange(10**9))[:fd].ljust(9, "0")) if fd else 0
            out.append({"y": y, "m": m, "d": d, "H": s // 3600, "M": (s % 3600) // 60, "S": s % 60, "n": n, "fd": fd,
                        "off": rng.choice(offsets), "z": rng.random() < 0.3, "abbr": rng.choice(list(ABBR) + AMBIG),
                        "cm": rng.choice([0, 0, 1, 2]), "dd": rng.choice([0, 1])})
    return out


def run(pid, tier, seed):
    rep = Reporter(pid, tier, seed, "exploration")
    rng = random.Random(seed * 2221 + 4)
    common.build_s4()
    with Scratch(pid) as sc:
        sts = stamps(rng, tier)
        nots = notations()
        # fallback zones: UTC, half-hour east, far west, and offsets strictly between -01:00 and 00:00 (sign without hours)
        # (the option value itself in its documented spellings: +HH:MM, +HHMM, +HH, a zone name in either case)
        fallbacks = ([("+00:00", 0), ("-08:00", -480), ("+05:30", 330), ("-00:45", -45), ("-00:15", -15), ("+00:30", 30), ("+13:45", 825),
                      ("+0530", 330), ("-0800", -480), ("+09", 540), ("PST", -480), ("cest", 120), ("NPT", 345), ("Z", 0)] if tier == "thorough"
                     else [("+00:00", 0), ("+0530", 330), ("-00:45", -45), ("PST", -480)])
        # ---- specification's answer (TLC) on a sample, and the oracle self-test
        sample = rng.sample(sts, min(len(sts), 400 if tier == "quick" else 4000))
        sj = []
        for t in sample:
            fbm = rng.choice(fallbacks)[1]
            zoned = rng.random() < 0.7
            sj.append({"y": t["y"], "m": t["m"], "d": t["d"], "H": t["H"], "M": t["M"], "S": t["S"], "n": t["n"], "zoned": zoned,
                       "off": t["off"], "fb": fbm})
        sp = os.path.join(sc, "stamps.json")
        os.makedirs(sc, exist_ok=True)
        with open(sp, "w") as f:
            json.dump(sj, f)
        cfg = write_cfg(os.path.join(sc, "tlc", "in.cfg"), {}, spec="Spec", invariants=["Lemmas"])
        r = tlc("Instant", cfg, os.path.join(sc, "tlc"), workers=1, timeout=1800, env={"STAMPS": sp})
        if r.violated:
            rep.violation("model:Instant:%s" % r.violated, "Instant.tla lemma violated", {"kind": "tlc", "cmd": r.cmd})
        else:
            common.tlc_must_pass(r, "Instant")
        spec_ans = {v[1] - 1: tuple(v[2]) for v in common.tla_prints(r.output, "INSTANT")}
        if len(spec_ans) != len(sj):
            raise ToolError("Instant.tla returned %d answers for %d stamps" % (len(spec_ans), len(sj)))
        for i, (t, j) in enumerate(zip(sample, sj)):
            mine = instant(dict(t, off=j["off"]), j["fb"], "num" if j["zoned"] else "none")
            if mine != spec_ans[i]:
                raise ToolError("oracle self-test: Instant.tla %s vs independent implementation %s for %s" % (spec_ans[i], mine, j))

        # ---- one file per notation and fallback zone
        jobs = []
        # one datetime pattern is fixed per file: a file holds either no fractions at all or fractions of 1..max digits
        variants = []
        for name, zk, maxfd, render in nots:
            if maxfd == 0 or name in ("comma_ms", "bracket", "epoch_ms", "epoch_us", "epoch_ns", "epoch_audit"):
                variants.append((name, zk, maxfd, render, "fixed"))
            else:
                variants.append((name, zk, maxfd, render, "nofrac"))
                variants.append((name, zk, maxfd, render, "frac"))
        # a single file is printed in file order whatever its instants: every file after the first of a notation holds the
        # same timestamps in shuffled order (messages out of chronological order, jumps of decades either way)
        shuffled = list(sts)
        rng.shuffle(shuffled)
        for name, zk, maxfd, render, fv in variants:
            for fi_, (fbs, fbm) in enumerate(fallbacks):
                lines, exp = [], []
                for i, t in enumerate(sts if fi_ == 0 else shuffled):
                    t = dict(t)
                    if fv == "nofrac":
                        t["fd"] = 0
                    elif fv == "frac":
                        t["fd"] = 1 + (t["fd"] + i) % maxfd
                        t["n"] = int(("%09d" % ((t["n"] * 7919 + i * 104729 + 123456789) % 10**9)))
                    else:
                        t["fd"] = min(t["fd"], maxfd)
                    t["n"] = int(("%09d" % t["n"])[:t["fd"]].ljust(9, "0")) if t["fd"] else 0
                    if zk == "epoch" and not ((1998, 7, 10) <= (t["y"], t["m"], t["d"]) <= (2065, 1, 23)):
                        continue   # epoch forms are recognised from 900000000 to 2999999999 (1998-07-09 .. 2065-01-24)
                    if zk == "epoch":
                        t["epoch"] = days_from_civil(t["y"], t["m"], t["d"]) * 86400 + t["H"] * 3600 + t["M"] * 60 + t["S"]
                        t["n"] = (t["n"] // 10**6) * 10**6
                    if name in ("comma_ms", "bracket"):
                        t["n"] = (t["n"] // 10**6) * 10**6
                    inst = instant(t, fbm, zk)
                    if not (0 < inst[0] < 47481):
                        continue
                    ln = "%s line=%d" % (render(t), i)
                    lines.append(ln)
                    exp.append(fmt_instant(*inst) + ":" + ln)
                jobs.append((name + ":" + fv + ("" if fi_ == 0 else ":shuffled"), fbs, "\n".join(lines) + "\n", exp))

        # timestamps that EXTEND the one on the line before: the same second with one more fractional digit each line
        # (.2, .25, .257, ...), a zone name that goes on where the previous one ended (PET then PETT, WIT then WITA)
        pairs = [("PET", "PETT"), ("WIT", "WITA"), ("AMT", "AMST"), ("CHAST", "CHADT")]
        pairs = [(a_, b_) for a_, b_ in pairs if a_ in ABBR and b_ in ABBR]
        for name, zk, maxfd, render, fv in variants:
            if not ((fv == "frac" and maxfd >= 3) or (zk == "abbr" and fv in ("fixed", "nofrac"))):
                continue
            fbs, fbm = fallbacks[0]
            lines, exp = [], []
            for i, t0_ in enumerate(sts[:25]):
                if fv == "frac":
                    steps = [dict(t0_, fd=fd_, n=int(("%09d" % ((t0_["n"] * 7919 + 123456789) % 10**9))[:fd_].ljust(9, "0"))) for fd_ in range(1, maxfd + 1)]
                else:
                    a_, b_ = pairs[i % len(pairs)] if pairs else ("UTC", "UTC")
                    steps = [dict(t0_, fd=0, n=0, abbr=a_), dict(t0_, fd=0, n=0, abbr=b_), dict(t0_, fd=0, n=0, abbr=a_)]
                for t in steps:
                    if zk == "epoch":
                        break
                    inst = instant(t, fbm, zk)
                    if not (0 < inst[0] < 47481):
                        continue
                    ln = "%s line=%d" % (render(t), len(lines))
                    lines.append(ln)
                    exp.append(fmt_instant(*inst) + ":" + ln)
            if lines:
                jobs.append((name + ":" + fv + ":extending", fbs, "\n".join(lines) + "\n", exp))

        # messages with continuation lines that hold no digit at all (a stack trace's "Caused by: ..." line, longer than any
        # timestamp), between dated lines of every length: each dated line is still read for itself
        CONT = "Caused by: java.lang.IllegalStateException: the thing was not in the state the caller believed it to be in (see above)"
        for name, zk, maxfd, render, fv in variants:
            if fv == "frac":
                continue
            fbs, fbm = fallbacks[0]
            lines, exp = [], []
            for i, t0_ in enumerate(sts):
                if len(lines) >= 60:
                    break
                t = dict(t0_)
                t["fd"] = 0 if fv == "nofrac" else min(t["fd"], maxfd)
                t["n"] = int(("%09d" % t["n"])[:t["fd"]].ljust(9, "0")) if t["fd"] else 0
                if zk == "epoch":
                    if not ((1998, 7, 10) <= (t["y"], t["m"], t["d"]) <= (2065, 1, 23)):
                        continue
                    t["epoch"] = days_from_civil(t["y"], t["m"], t["d"]) * 86400 + t["H"] * 3600 + t["M"] * 60 + t["S"]
                    t["n"] = (t["n"] // 10**6) * 10**6
                if name in ("comma_ms", "bracket"):
                    t["n"] = (t["n"] // 10**6) * 10**6
                inst = instant(t, fbm, zk)
                if not (0 < inst[0] < 47481):
                    continue
                ln = "%s x=%d" % (render(t), i)      # (text follows every timestamp: a bare epoch value at a line's end is not a documented form)
                lines.append(ln)
                exp.append(fmt_instant(*inst) + ":" + ln)
                if i % 2 == 0:
                    lines.append(CONT)
                    exp.append(fmt_instant(*inst) + ":" + CONT)
            if lines:
                jobs.append((name + ":" + fv + ":continued", fbs, "\n".join(lines) + "\n", exp))

        def do(job):
            name, fbs, blob, exp = job
            d = os.path.join(sc, "n", "%s_%s" % (name.replace(":", "_"), fbs.replace(":", "c").replace("+", "p").replace("-", "m")))
            os.makedirs(d)
            with open(os.path.join(d, "n.log"), "w") as f:
                f.write(blob)
            # the read block size is varied as well: at 256..4096 bytes a block boundary falls inside a timestamp (or inside
            # the text before it) every few lines, at every position (every line here is shorter than the smallest size)
            B = [65536, 256, 300, 1000, 4096][sum((name + fbs).encode()) % 5]
            return common.run_s4(["--tz-offset=" + fbs, "--color", "never", "--blocksz", str(B), "-u", "-d", "%Y%m%dT%H%M%S%.9f", "n.log"], cwd=d,
                                 timeout=120, tz_args=False)

        t0 = time.time()
        with ThreadPoolExecutor(max_workers=8) as ex:
            runs = list(ex.map(do, jobs))
        log("C04: %d files in %.1fs" % (len(runs), time.time() - t0))
        total = 0
        nontriv = 0
        samples = []
        for (name, fbs, blob, exp), rr in zip(jobs, runs):
            got = rr.out.decode(errors="replace").split("\n")
            if got and got[-1] == "":
                got.pop()
            rec = {"kind": "c04", "notation": name, "tz_offset": fbs}
            if rr.timed_out:
                rep.violation("hang:%s" % name, "%s under %s: no exit within 120 s (%d lines)" % (name, fbs, len(exp)), rec)
                continue
            if rr.crashed:
                rep.violation("crash:%s" % name, "rc=%s %r" % (rr.rc, rr.err[-200:]), rec)
                continue
            total += len(exp)
            if len(got) != len(exp):
                # find the first line that is missing / merged
                k = next((i for i, (g, e) in enumerate(zip(got, exp)) if g != e), min(len(got), len(exp)))
                rec.update({"line": k, "want": exp[k] if k < len(exp) else None, "got": got[k] if k < len(got) else None})
                rep.violation("lines-lost:%s" % name, "%s under %s: %d lines printed for %d written (first difference at line %d)"
                              % (name, fbs, len(got), len(exp), k), rec)
                continue
            bad = [(i, g, e) for i, (g, e) in enumerate(zip(got, exp)) if g != e]
            nontriv += sum(1 for e in exp if "T000000" in e or "T235959" in e or "0229T" in e)
            if bad:
                i, g, e = bad[0]
                rec.update({"line": i, "want": e, "got": g, "mismatches": len(bad)})
                rep.violation("instant:%s" % name, "%s under %s: %d of %d instants wrong; first: got %s want %s" % (name, fbs, len(bad), len(exp), g[:60], e[:60]), rec)
            elif len(samples) < 4:
                samples.append({"notation": name, "tz_offset": fbs, "first": exp[0], "lines": len(exp)})
        rep.coverage = {"evaluations": total, "distinct_nontrivial": nontriv,
                        "rule": "one evaluation = one rendered timestamp line (notation x date x time x zone spec x fraction length x "
                                "--tz-offset) whose prepended instant is compared with InstantOf; non-trivial = at a day boundary second or on 29 February",
                        "samples": samples, "notations": [n[0] for n in nots], "abstract_timestamps": len(sts), "spec_evaluated": len(sj),
                        "states": r.distinct, "exhaustive": False}
        rep.assumptions = ["notation table = the forms the unchanged tree recognises among the documented families (calibrated once)",
                           "abbreviation table of well-known unambiguous names; IST / ACT are ambiguous and fall back to --tz-offset",
                           "epoch and comma/bracket forms carry millisecond fractions", "epoch forms 900000000..2999999999 (1998-07-09..2065-01-24) only: the documented pattern",
                           "one pattern is fixed per file: files hold either no fraction or fractions of 1..max digits"]
    return rep.finish()
