"""C17: memory held for a streamed text log does not grow with its size.

Spec: Stream3.tla -- the stage-3 release rules (drop_data_try distance, drop of all line parts but the last, the
block-aligned case as design parameter ALIGNED measured on the real reader); TLC checks for every small file,
including lines that end exactly on a block end, that the held-block high-water mark stays under 4 x (largest
message span) + c independent of the number of lines.
Code: logs of 10, 100, 1 000 and 10 000 blocks (small --blocksz) with several line-length distributions (lines
equal to / dividing / not dividing the block size, multi-block messages), plain / gz / bz2 / lz4, printed with
--summary; the `blocks high`, `lines high`, `syslines high` figures must satisfy the model's bound and must not
grow from one decade to the next (for a windowed plain file at most by log2(size))."""
import math
import os
import random
import re
import time
from concurrent.futures import ThreadPoolExecutor

from . import common, gen
from .common import Reporter, Scratch, ToolError, log, tlc, write_cfg

RE_HIGH = {k: re.compile(rb"%s\s*:\s*(\d+)" % k.encode()) for k in ("blocks high", "lines high", "syslines high")}


def make_log(dist, B, nblocks, rng):
    """text log of about nblocks*B bytes; returns bytes and the largest message span in blocks"""
    out, size, k = [], 0, 0
    target = nblocks * B
    maxmsg = 0
    if dist in ("cross15", "cross25", "mixed", "multi", "aligned"):
        # two short messages fill block zero exactly (block-zero analysis wants complete lines there); the long lines
        # start on the next block's first byte
        a_ = gen.fmt_ts(gen.BASE, 0, None, 0).encode() + b" a\n"
        b_ = gen.fmt_ts(gen.BASE, 0, None, 0).encode() + b" " + b"b" * (B - len(a_) - 21) + b"\n"
        out += [a_, b_]
        size = len(a_) + len(b_)
        assert size == B
    while size < target:
        k += 1
        ts = gen.fmt_ts(gen.BASE + k, 0, None, 0).encode()
        if dist == "reset":
            # the clock was reset for a while: the middle 80 % of the file carries timestamps twenty years back
            frac_ = size / float(target)
            ts = gen.fmt_ts((gen.BASE if (frac_ < 0.1 or frac_ >= 0.9) else gen.BASE - 20 * 365 * 86400) + k, 0, None, 0).encode()
        if dist == "epoch":
            # Unix-epoch timestamps ("1704067201 ..."): no year field, yet every value names its year -- nothing has to be
            # held back for a year walk
            ts = b"%d" % (gen.BASE + k)
        if dist == "aligned":          # every line exactly one block
            ln = B
        elif dist == "cross15":        # every line one and a half blocks: every second one crosses a block end and ends on the next
            ln = B + B // 2
        elif dist == "cross25":        # two and a half blocks
            ln = 2 * B + B // 2
        elif dist == "half":           # two lines per block: every second newline lands on a block end
            ln = B // 2
        elif dist in ("short", "reset", "epoch"):
            ln = 20 + 8 + rng.randrange(0, 10)
        elif dist == "mixed":
            ln = rng.choice([B // 2, B, B + 1, 2 * B, 30, 45, 3 * B - 1])
        else:                          # "multi": head line + continuation lines spanning several blocks
            ln = rng.choice([40, B, 60])
        ln = max(ln, 22)
        line = ts + b" " + b"x" * (ln - len(ts) - 2) + b"\n"
        msg = line
        if dist == "multi" and rng.random() < 0.3:
            for _ in range(rng.choice([1, 2, 5])):
                msg += b"  " + b"c" * rng.choice([10, B, 2 * B]) + b"\n"
        out.append(msg)
        size += len(msg)
        maxmsg = max(maxmsg, len(msg))
    return b"".join(out), (maxmsg + B - 1) // B + 1


def highs(err):
    res = {}
    for k, rx in RE_HIGH.items():
        m = rx.search(err)
        if not m:
            raise ToolError("summary line %r not found" % k)
        res[k] = int(m.group(1))
    return res


def highs_max(err):
    """the largest of each high-water mark over the files of a run"""
    res = {}
    for k, rx in RE_HIGH.items():
        vals = [int(x) for x in re.findall(rx.pattern, err, rx.flags)]
        if not vals:
            raise ToolError("summary line %r not found" % k)
        res[k] = max(vals)
    return res


def measure_aligned(sc):
    """block-aligned lines on a plain file: does the held-block count stay small?"""
    B = 64
    blob, _ = make_log("aligned", B, 300, random.Random(1))
    d = os.path.join(sc, "probe")
    os.makedirs(d)
    with open(os.path.join(d, "p.log"), "wb") as f:
        f.write(blob)
    r = common.run_s4(["--color", "never", "--blocksz", str(B), "-s", "p.log"], cwd=d, timeout=120)
    return highs(r.err)["blocks high"] <= 12


def run(pid, tier, seed):
    rep = Reporter(pid, tier, seed, "model_checking")
    rng = random.Random(seed * 7877 + 17)
    common.build_s4()
    common.build_harness(["mk_lz4"])
    with Scratch(pid) as sc:
        aligned = measure_aligned(sc)
        states = trans = 0
        predicted = None
        for name, consts in (("mixed", {"B": 4, "LENS": {2, 3, 4, 5, 8, 9}, "MaxLines": 4 if tier == "quick" else 5, "ALIGNED": aligned, "SLACK": 2}),
                             ("aligned", {"B": 4, "LENS": {2, 4}, "MaxLines": 9 if tier == "quick" else 11, "ALIGNED": aligned, "SLACK": 2})):
            cfg = write_cfg(os.path.join(sc, "tlc", name + ".cfg"), consts, spec="Spec", invariants=["Bounded"])
            r = tlc("Stream3", cfg, os.path.join(sc, "tlc"), workers=8, timeout=1500)
            if r.violated:
                predicted = "%s:%s" % (name, r.violated)
            else:
                common.tlc_must_pass(r, "Stream3")
            states += r.distinct
            trans += r.generated

        decades = [10, 100, 1000] + ([10000] if tier == "thorough" else [4000])
        dists = ["aligned", "half", "short", "mixed", "multi", "reset", "epoch", "cross15", "cross25"]
        conts = ["plain", "gz", "bz2", "lz4"] if tier == "thorough" else ["plain", "gz", "lz4"]
        Bs = [64, 256] if tier == "quick" else [64, 100, 256, 1024]
        jobs = []
        for dist in dists:
            for cont in conts:
                for B in (Bs if cont == "plain" else Bs[:1]):
                    # (a window that opens in the middle of the file: a plain file is binary-searched, a streamed one is read
                    #  through from the start and what lies before the window must be let go of on the way)
                    for win in ([True] if dist == "reset" else [False, True] if dist in ("short", "mixed") else [False]):
                        jobs.append((dist, cont, B, win))

        def series(job):
            dist, cont, B, win = job
            r_ = random.Random(sum(str(job).encode()) * 131 + seed)
            out = []
            for nb in decades:
                blob, span = make_log(dist, B, nb, r_)
                d = os.path.join(sc, "run", "%s_%s_%d_%d_%d" % (dist, cont, B, win, nb))
                os.makedirs(d)
                name = {"plain": "f.log", "gz": "f.log.gz", "bz2": "f.log.bz2", "lz4": "f.log.lz4"}[cont]
                data = {"plain": lambda: blob, "gz": lambda: gen.gz_bytes(blob, 1), "bz2": lambda: gen.bz2_bytes(blob, 1),
                        "lz4": lambda: gen.lz4_bytes(blob)}[cont]()
                with open(os.path.join(d, name), "wb") as f:
                    f.write(data)
                argv = ["--color", "never", "--blocksz", str(B), "-s"]
                if win:
                    # window starting in the middle of the file: the plain reader binary-searches first
                    nmsgs = blob.count(b"\n2024") + 1
                    # ("reset": the window opens a day before the first message: the long run with the clock set back lies
                    #  outside it, in the middle of the stream)
                    argv += ["-a", gen.fmt_ts((gen.BASE - 86400) if dist == "reset" else (gen.BASE + max(1, nmsgs // 2)), 0, None, 0)]
                rr = common.run_s4(argv + [name], cwd=d, timeout=600)
                import shutil
                shutil.rmtree(d, ignore_errors=True)
                # most line starts in any one block: the held lines / messages are bounded by (held blocks) x this
                lpb = 1
                cnt = {}
                pos = 0
                for ln in blob.split(b"\n"):
                    cnt[pos // B] = cnt.get(pos // B, 0) + 1
                    pos += len(ln) + 1
                lpb = max(cnt.values())
                if not win and not rr.crashed and len(rr.out) != len(blob):
                    # (not this property's subject, but a series that prints nothing measures nothing)
                    raise ToolError("C17 series %s B=%d: %d of %d bytes printed -- the generated log is not read through" % (dist, B, len(rr.out), len(blob)))
                if rr.crashed:
                    out.append((nb, (span, lpb), None, rr))
                else:
                    out.append((nb, (span, lpb), highs(rr.err), rr))
            return out

        t0 = time.time()
        with ThreadPoolExecutor(max_workers=8) as ex:
            allseries = list(ex.map(series, jobs))
        log("C17: %d series x %d sizes in %.1fs" % (len(jobs), len(decades), time.time() - t0))
        samples = []
        reproduced = False
        for (dist, cont, B, win), ser in zip(jobs, allseries):
            rec = {"kind": "c17", "dist": dist, "container": cont, "blocksz": B, "window": win,
                   "series": [(nb, sp[0], h) for nb, sp, h, _ in ser]}
            if any(h is None for _, _, h, _ in ser):
                rep.violation("crash", "run failed (%s %s B=%d)" % (dist, cont, B), rec)
                continue
            for key in ("blocks high", "lines high", "syslines high"):
                vals = [h[key] for _, _, h, _ in ser]
                span = max(s[0] for _, s, _, _ in ser)
                lpb = max(s[1] for _, s, _, _ in ser)
                allow = 4 * span + 8 if key == "blocks high" else (4 * span + 8) * lpb + 8
                # a windowed plain file is binary-searched first: every probe may keep a message (up to 3 blocks)
                extra = 3 * (math.ceil(math.log2(decades[-1] * B)) + 2) if win else 0
                # growth = beyond the model's bound, or scaling with the size (x40 size -> more than x3 and still rising)
                grew = vals[-1] > allow + extra or (vals[-1] > 3 * max(vals[1], 10) + extra and vals[-1] > 1.5 * vals[2])
                if grew:
                    reproduced = True
                    rep.violation("growth:%s:%s:%s" % (key.split()[0], cont, dist),
                                  "%s grows with the file size: %s for %s blocks (%s, %s, --blocksz %d%s)"
                                  % (key, vals, decades, dist, cont, B, ", windowed" if win else ""), rec)
            if len(samples) < 4:
                samples.append(rec)
        # two files in one run, all of the second one's messages later than the first one's: while the first is printed the
        # second one's reader can only run as far ahead as the channel lets it -- what it holds stays bounded whatever its size
        two_runs = 0
        for cont in (["plain", "gz"] if tier == "quick" else ["plain", "gz", "bz2", "lz4"]):
            B = 256
            early = b"".join(b"%s early %d\n" % (gen.fmt_ts(gen.BASE + k_, 0, None, 0).encode(), k_) for k_ in range(1, 12001))
            vals_by_key = {k_: [] for k_ in ("blocks high", "lines high", "syslines high")}
            sizes = [10, 100, 1000] + ([4000] if tier == "thorough" else [])
            for nb in sizes:
                d = os.path.join(sc, "two", "%s_%d" % (cont, nb))
                os.makedirs(d)
                later = b"".join(b"%s later %d %s\n" % (gen.fmt_ts(gen.BASE + 86400 + k_, 0, None, 0).encode(), k_, b"l" * 30) for k_ in range(1, nb * B // 60 + 1))
                name = {"plain": "later.log", "gz": "later.log.gz", "bz2": "later.log.bz2", "lz4": "later.log.lz4"}[cont]
                data = {"plain": lambda: later, "gz": lambda: gen.gz_bytes(later, 1), "bz2": lambda: gen.bz2_bytes(later, 1), "lz4": lambda: gen.lz4_bytes(later)}[cont]()
                gen.write(os.path.join(d, "early.log"), early)
                gen.write(os.path.join(d, name), data)
                rr = common.run_s4(["--color", "never", "--blocksz", str(B), "-s", "early.log", name], cwd=d, timeout=600)
                two_runs += 1
                import shutil
                shutil.rmtree(d, ignore_errors=True)
                if rr.crashed or len(rr.out) != len(early) + len(later):
                    rep.violation("two-files:output", "early.log + %s: %d of %d bytes printed (rc=%s)" % (name, len(rr.out), len(early) + len(later), rr.rc),
                                  {"kind": "c17-two", "container": cont, "later_blocks": nb})
                    break
                h = highs_max(rr.err)
                for k_ in vals_by_key:
                    vals_by_key[k_].append(h[k_])
            else:
                for k_, vals in vals_by_key.items():
                    lpb = B // 20
                    allow = 4 * 2 + 8 if k_ == "blocks high" else (4 * 2 + 8) * lpb + 8
                    if vals[-1] > allow or (vals[-1] > 3 * max(vals[1], 10) and vals[-1] > 1.5 * vals[-2]):
                        rep.violation("growth:%s:%s:two-files" % (k_.split()[0], cont),
                                      "%s of the later of two files grows with its size: %s for %s blocks (%s, --blocksz %d, an earlier file printed first)"
                                      % (k_, vals, sizes, cont, B), {"kind": "c17-two", "container": cont, "values": vals})
        if predicted and not reproduced and not rep.known_hits:
            rep.note_drift("Stream3.tla with measured ALIGNED=%s violates Bounded (%s) but no growth was measured" % (aligned, predicted))
        rep.coverage = {"states": states, "transitions": trans, "traces_validated_against_impl": 0,
                        "evaluations": len(jobs) * len(decades) + two_runs, "two_file_runs": two_runs, "distinct_nontrivial": len(jobs) * (len(decades) - 1),
                        "rule": "one evaluation = one --summary run on a generated log; a series = the same line-length distribution, "
                                "container and --blocksz at %s blocks; non-trivial = sizes >= 100 blocks" % decades,
                        "samples": samples, "aligned_measured": aligned, "model_prediction": predicted, "exhaustive": False}
        rep.assumptions = ["memory = the program's own high-water marks (blocks/lines/syslines high), as the property says",
                           "bound 4 x (largest message span) + 8 blocks; + log2(size) for a windowed plain file"]
    return rep.finish()
