"""Binding of S4Run.tla to the real binary: exhaustive TLC runs with constants from the build, trace
annotation + TLC trace validation (I->S), TLC-simulated behaviours turned into turnstile plans (S->I)."""
import json
import os
import re

from . import common
from .common import tlc, write_cfg, Raw, ToolError

MAXN = 8


def _scan_note(msg):
    """a design parameter could not be read off the source: the conservative value is used; whatever the model then
    predicts must be reproduced on the real binary before it is reported, so this can only cost coverage"""
    import sys
    print("NOTE design-parameter scan: " + msg, file=sys.stderr, flush=True)


def reg_atomic():
    """Design parameter read from the source (DESIGN 4.4): is the temp file created while the
    NAMED_TEMP_FILES write lock is held, and does the handler close the list?  Anchors missing = tool error."""
    path = os.path.join(common.REPO, "src/readers/filedecompressor.rs")
    text = open(path, encoding="utf-8", errors="replace").read()
    m = re.search(r"pub fn decompress_to_ntf\(", text)
    if not m:
        _scan_note("decompress_to_ntf not found: REGATOMIC taken as FALSE")
        return False
    body = text[m.end():]
    i_create = body.find(".tempfile()")
    i_lock = body.find("NAMED_TEMP_FILES).write()")
    if i_lock < 0:
        i_lock = body.find("NAMED_TEMP_FILES.write()")
    if i_create < 0 or i_lock < 0:
        _scan_note(".tempfile() / NAMED_TEMP_FILES.write() not found in decompress_to_ntf: REGATOMIC taken as FALSE")
        return False
    i_closed = body.find("NAMED_TEMP_FILES_CLOSED.load")
    s4 = open(os.path.join(common.REPO, "src/bin/s4.rs"), encoding="utf-8", errors="replace").read()
    closes = "NAMED_TEMP_FILES_CLOSED.store(true" in s4
    return i_lock < i_create and 0 <= i_closed < i_create and closes


def check_locked():
    """Design parameter read from the source: is the NAMED_TEMP_FILES_CLOSED test of decompress_to_ntf made after the
    NAMED_TEMP_FILES write lock was taken (True) or before (False: check-then-act)?  Meaningful when reg_atomic()."""
    text = open(os.path.join(common.REPO, "src/readers/filedecompressor.rs"), encoding="utf-8", errors="replace").read()
    m = re.search(r"pub fn decompress_to_ntf\(", text)
    if not m:
        return True
    body = text[m.end():]
    i_lock = body.find("NAMED_TEMP_FILES).write()")
    if i_lock < 0:
        i_lock = body.find("NAMED_TEMP_FILES.write()")
    i_create = body.find(".tempfile()")
    tests = [x.start() for x in re.finditer(r"NAMED_TEMP_FILES_CLOSED\.load", body) if x.start() < i_create]
    if not tests:
        return True     # no test at all: REGATOMIC is False, the parameter is not used
    return any(i_lock < t for t in tests)


def final_sweep():
    """Design parameter read from the source: does `main` remove the still-listed temp files after processing_loop has
    returned (workers are not joined)?  Anchors missing = tool error."""
    s4 = open(os.path.join(common.REPO, "src/bin/s4.rs"), encoding="utf-8", errors="replace").read()
    m = re.search(r"let ret: bool = processing_loop\(", s4)
    if not m:
        _scan_note("`let ret: bool = processing_loop(` not found in main: SWEEP taken as FALSE")
        return False
    tail = s4[m.end():]
    end = re.search(r"\n}\n", tail)
    if not end:
        _scan_note("end of main not found: SWEEP taken as FALSE")
        return False
    body = tail[:end.start()]
    call = re.search(r"^\s*(\w+)\(\);\s*$", body, re.M)
    if not call:
        return False
    fn = re.search(r"fn %s\(\)\s*\{(.*?)\n}\n" % re.escape(call.group(1)), s4, re.S)
    return bool(fn and "NAMED_TEMP_FILES" in fn.group(1) and "remove_file" in fn.group(1))


def s4run_constants(N, M, DT, tmpw=(), sig=False, shapes=("ok",), dropfirst=True, regatomic=None, epipe=False, sweep=None):
    return {"N": N, "M": M, "DT": set(DT), "CAP": common.channel_capacity(), "TMPW": set(tmpw), "SIG": sig,
            "SHAPES": set(shapes), "DROPFIRST": dropfirst,
            "REGATOMIC": reg_atomic() if regatomic is None else regatomic, "EPIPE": epipe,
            "SWEEP": final_sweep() if sweep is None else sweep, "CHECKLOCKED": check_locked()}


def model_check(workdir, name, consts, invariants, properties, workers=8, timeout=900, coverage=False):
    cfg = write_cfg(os.path.join(workdir, name + ".cfg"), consts, spec="Spec", invariants=invariants,
                    properties=properties)
    return tlc("S4Run", cfg, workdir, workers=workers, timeout=timeout, coverage=coverage)


# ------------------------------------------------------------------------------------------
# trace annotation


def rank_table(truth_instants):
    """truth_instants: iterable of (sec, nanos) -> {instant: rank (1..)}"""
    return {k: i + 1 for i, k in enumerate(sorted(set(truth_instants)))}


def reset_record(dts_ranks, shapes, seplen=0):
    return {"ev": "Reset", "t": "main", "n": len(dts_ranks), "dts": dts_ranks, "shape": shapes, "seplen": seplen,
            "nrw": 0, "nrk": -1}


# events of other specifications (BinSearch probes, block-zero verdict, resolved filters) recorded in the same
# file are not part of the S4Run vocabulary and are left out before validation
S4RUN_EVENTS = {"Spawn", "WStart", "SendStart", "SendDone", "WReturn", "TempCreate", "TempRegister", "ReaderDrop", "Recv", "SelNone",
                "FiAll", "FirstPrint", "Print", "Printed", "AddNl", "Remove", "LoopExit", "Totals", "Return", "ExitEarly", "Sweep", "MainExit",
                "SigRaise", "PlanAbandoned", "HStart", "HCleared", "HRemoved", "HFlag"}


def annotate(events, ranks):
    """Add the d (instant rank), serr and look-ahead (nrw, nrk) fields.  Pure function of the trace."""
    out = []
    for e in events:
        if e.get("ev") not in S4RUN_EVENTS:
            continue
        e = dict(e)
        e.pop("seq", None)
        if e["ev"] in ("SendStart", "Print"):
            if e["ev"] == "SendStart" and e.get("k") == 2:
                e["serr"] = e.get("ds", 0)
                e["d"] = 0
            elif e["ev"] == "SendStart" and e.get("k") == 0:
                e["d"] = 0
            else:
                e["d"] = ranks.get((e.get("ds"), e.get("dn")), -1)
            e.pop("ds", None)
            e.pop("dn", None)
        out.append(e)
    # look-ahead: the next main-thread event at or after each index
    nrw, nrk = 0, -1
    for i in range(len(out) - 1, -1, -1):
        e = out[i]
        if e.get("t") == "main":
            if e["ev"] == "Recv":
                nrw, nrk = e["w"] + 1, e["k"]
            elif e["ev"] == "SelNone":
                nrw, nrk = 0, 4
            else:
                nrw, nrk = 0, -1
        e["nrw"], e["nrk"] = nrw, nrk
    return out


REQUIRED_EVENTS = ("Spawn", "SendStart", "SendDone", "Recv", "Return", "MainExit")


def check_hooks_present(events):
    """Missing hook events = the instrumentation was removed: tool error, never a silent pass."""
    names = {e["ev"] for e in events}
    missing = [n for n in REQUIRED_EVENTS if n not in names]
    if missing and "ExitEarly" not in names:
        raise ToolError("hook events missing from trace (instrumentation removed?): %s" % missing)


def validate(workdir, records, tmpw=(), invariants=("TraceInv",), properties=("TPrintIsEarliest",), timeout=600,
             dropfirst=True):
    """Run TLC on TraceS4Run over `records` (list of dicts).  Returns (accepted, first_unmatched_index, TlcResult)."""
    os.makedirs(workdir, exist_ok=True)
    tpath = os.path.join(workdir, "trace-%d.ndjson" % (len(os.listdir(workdir))))
    with open(tpath, "w") as f:
        for r in records:
            f.write(json.dumps(r) + "\n")
    consts = s4run_constants(MAXN, 0, [], tmpw=tmpw, sig=True, shapes=("ok", "fierr", "sumerr"), dropfirst=dropfirst)
    cfg = write_cfg(tpath + ".cfg", consts, spec="TSpec", invariants=invariants, properties=properties,
                    constraint="Progress", postcondition="Accepted")
    r = tlc("TraceS4Run", cfg, workdir, workers=1, timeout=timeout, env={"TRACE": tpath}, deque=True,
            java_opts="-Xmx3g")
    first = None
    m = re.search(r'"UNMATCHED",\s*(\d+),\s*(\d+)', r.output)
    if m:
        first = int(m.group(1))
    accepted = r.ok
    if not accepted and first is None and r.violated is None:
        common.log(r.output[-3000:])
        raise ToolError("trace validation: TLC failed without a verdict")
    return accepted, first, r


# ------------------------------------------------------------------------------------------
# S -> I: TLC simulation behaviours as turnstile plans


def simulate_plans(workdir, dts_ranks, num=20, depth=400, seed=1, tmpw=(), sig=False, dropfirst=True):
    """Random behaviours of S4Run for fixed ground truth; returns a list of plans [(thread, point)].
    With sig=True each plan is (entries, sigint) where sigint = "thread:point:k" (raise at that passage) or None."""
    n = len(dts_ranks)
    consts = s4run_constants(n, max([len(d) for d in dts_ranks] + [1]), {1}, shapes=("ok",), tmpw=tmpw, sig=sig, dropfirst=dropfirst)
    os.makedirs(workdir, exist_ok=True)
    dfile = os.path.join(workdir, "dts-%d.json" % seed)
    with open(dfile, "w") as f:
        json.dump(dts_ranks, f)
    cfg = write_cfg(os.path.join(workdir, "sim-%d.cfg" % seed), consts, spec="SimSpec", invariants=["DumpAtEnd"])
    r = tlc("SimS4Run", cfg, workdir, workers=1, timeout=120, simulate=num, depth=depth, seed=seed,
            env={"DTSFILE": dfile})
    plans = []
    for m in re.finditer(r'"PLAN",\s*"([^"]*)"', r.output):
        plan = []
        sigint = None
        bad = False
        for tok in m.group(1).split():
            kind, w = tok[0], int(tok[1:])
            if kind == "S":
                plan += [("w%d" % (w - 1), "SendStart"), ("w%d" % (w - 1), "SendDone")]
            elif kind == "C":
                plan += [("w%d" % (w - 1), "TempCreate")]
            elif kind == "G":
                plan += [("w%d" % (w - 1), "TempRegister")]
            elif kind == "R":
                plan += [("main", "Recv"), ("main", "RecvDone")]
            elif kind == "P":
                plan += [("main", "Print")]
            elif kind == "X":
                if not plan:
                    bad = True
                    break
                t_, p_ = plan[-1]
                k_ = sum(1 for e in plan if e == (t_, p_)) - 1
                sigint = "%s:%s:%d" % (t_, p_, k_)
            elif kind == "K":
                plan += [("sig", "HCleared")]
            elif kind == "V":
                plan += [("sig", "HRemoved")]
            elif kind == "F":
                plan += [("sig", "HFlag")]
            elif kind == "L":
                plan += [("w%d" % (w - 1), "TempLock")]
            elif kind == "W":
                plan += [("main", "Sweep"), ("main", "SweepDone")]
            elif kind == "E":
                plan += [("main", "MainExit")]
        if bad:
            continue
        plans.append((plan, sigint) if sig else plan)
    return plans, r
