"""C19: the summary agrees with what was printed.

Spec: S4Run.tla counters through TraceS4Run.tla (the Totals event must equal the sums TLC recomputes over the Print /
Printed / AddNl events of the same run) and Decor.tla's byte arithmetic (bytes of a message = sum of its tokens;
total = messages + separators + supplied newlines).  Code: source sets of all kinds x windows x decoration options
are run with and without --summary: stdout must be identical and carry nothing of the summary; the totals on stderr
(bytes, lines, messages per kind) must equal what was actually written to stdout; per-file byte counts plus
separators plus supplied newlines must add up to the total; first / last printed datetimes and the filter bounds
must be those of the run."""
import calendar
import os
import random
import re
import time
from concurrent.futures import ThreadPoolExecutor

from . import common, gen, runmodel, c13
from .common import Reporter, Scratch, ToolError, log

RE_TOT = {k: re.compile(rb"^Printed %s\s*:\s*(\d+)" % k.encode(), re.M) for k in
          ("bytes", "lines", "syslines", "evtx events", "fixedstruct", "journal events")}
RE_FILE = re.compile(rb"^File: (.*)$", re.M)
RE_DT = re.compile(rb"\((\d{4})-(\d\d)-(\d\d) (\d\d):(\d\d):(\d\d)(?:\.\d+)? \+00:00\)")


def dt_of(err, label):
    m = re.search(rb"^%s[ \t]*:[ \t]*(.*)$" % label.encode(), err, re.M)
    if not m or not m.group(1).strip():
        return None
    u = RE_DT.search(m.group(1))
    if not u:
        return "unparsed"
    return calendar.timegm(tuple(int(u.group(i)) for i in range(1, 7)) + (0, 0, 0))


def per_file_first_last(err):
    """{file name: (first, last)} of the per-file 'Printed:' sections (epoch seconds, None when 'None Found')"""
    out = {}
    parts = re.split(rb"^File: ", err, flags=re.M)
    for part in parts[1:]:
        name = part.split(b"\n", 1)[0].strip().decode(errors="replace")
        sec = part.split(b"Processed:", 1)[0]
        if b"Printed:" not in sec:
            continue
        sec = sec.split(b"Printed:", 1)[1]
        vals = []
        shown = True
        for label in (rb"datetime first", rb"datetime last"):
            m = re.search(rb"^\s*" + label + rb"\s*:\s*(.*)$", sec, re.M)
            if not m:
                shown = False      # (record / event / entry files have no such lines in their Printed section)
                break
            u = RE_DT.search(m.group(1))
            vals.append(calendar.timegm(tuple(int(u.group(i)) for i in range(1, 7)) + (0, 0, 0)) if u else None)
        if shown:
            out[name] = tuple(vals)
    return out


def per_file_bytes(err):
    """{file name: printed bytes} from the per-file sections"""
    out = {}
    parts = re.split(rb"^File: ", err, flags=re.M)
    for part in parts[1:]:
        name = part.split(b"\n", 1)[0].strip().decode(errors="replace")
        m = re.search(rb"Printed:\s*\n\s*bytes\s*:\s*(\d+)", part)
        if m:
            out[name] = int(m.group(1))
    return out


def run(pid, tier, seed):
    rep = Reporter(pid, tier, seed, "model_checking")
    rng = random.Random(seed * 7001 + 19)
    common.build_s4()
    with Scratch(pid) as sc:
        sets = c13.source_sets(sc)
        # a third set: several text logs, one without final newline, one empty of messages
        d3 = os.path.join(sc, "s3")
        os.makedirs(d3)
        a, _ = gen.text_source("A", [(gen.BASE + i, 0) for i in range(5)], frac=0, cont=lambda i: [b"  c"] * (i % 2))
        b, _ = gen.text_source("B", [(gen.BASE + 1, 500_000_000), (gen.BASE + 7, 0)], frac=3, final_newline=False)
        # lines longer than the printer's internal buffer (2056 bytes), as head line and as continuation line
        long_ = (b"2024-01-01T00:00:02+00:00 src=L idx=0 " + b"L" * 3000 + b"\n" +
                 b"2024-01-01T00:00:04+00:00 src=L idx=1 short head\n" + b"  " + b"c" * 2500 + b"\n" +
                 b"2024-01-01T00:00:06+00:00 src=L idx=2 " + b"e" * 5000)
        for n_, blob in (("a.log", a), ("b.log", b), ("junk.log", b"no timestamps here at all\n" * 4), ("long.log", long_)):
            with open(os.path.join(d3, n_), "wb") as f:
                f.write(blob)
        sets.append((d3, ["a.log", "b.log", "junk.log", "long.log"], []))
        i3 = len(sets) - 1
        # a set in which nothing can be processed (an empty file, a two-byte file, a path that does not exist): no reader is
        # started, the summary is still printed and still that of the run
        d4 = os.path.join(sc, "s4")
        os.makedirs(d4)
        open(os.path.join(d4, "empty.log"), "wb").close()
        with open(os.path.join(d4, "tiny.log"), "wb") as f:
            f.write(b"ab")
        sets.append((d4, ["empty.log", "tiny.log", "no-such-file.log"], []))
        i4 = len(sets) - 1
        # an event log and a journal in compressed form (read through a temporary file) beside a text log
        d5 = os.path.join(sc, "s5")
        os.makedirs(d5)
        import shutil
        shutil.copyfile(os.path.join(common.REPO, "logs/programs/evtx/Microsoft-Windows-Kernel-PnP%4Configuration.evtx.gz"), os.path.join(d5, "k.evtx.gz"))
        shutil.copyfile(os.path.join(common.REPO, "logs/programs/journal/Ubuntu22-user-1000x3.journal.xz"), os.path.join(d5, "u.journal.xz"))
        with open(os.path.join(d5, "t.log"), "wb") as f:
            f.write(b"2023-03-10T03:49:43.561000+00:00 src=T idx=0\n2023-04-02T07:06:50+00:00 src=T idx=1\n")
        sets.append((d5, ["t.log", "k.evtx.gz", "u.journal.xz"], []))
        i5 = len(sets) - 1
        # accounting records holding the earliest and the latest instant of the run, a text log in between; the records alone
        d6 = os.path.join(sc, "s6")
        os.makedirs(d6)
        from . import c08
        with open(os.path.join(d6, "wtmp"), "wb") as f:
            f.write(b"".join(c08.rec_bytes(i + 1, t_, usec=0) for i, t_ in enumerate([1, 2, 3])))
        with open(os.path.join(d6, "mid.log"), "wb") as f:
            f.write(b"".join(b"%s src=M idx=%d\n" % (gen.fmt_ts(c08.SECS["utmp"][2] + k_, 0, 0, 0).encode(), k_) for k_ in (-3, 0, 4)))
        sets.append((d6, ["mid.log", "wtmp"], []))
        i6 = len(sets) - 1
        sets.append((d6, ["wtmp"], []))
        i7 = len(sets) - 1
        def kind_of(name):
            return "event" if ".evtx" in name else "entry" if ".journal" in name else "record" if "tmp" in name else "text"
        kinds_of = {si: {w: kind_of(n_) for w, n_ in enumerate(files)} for si, (_d, files, _w) in enumerate(sets)}
        optsets = [[], ["-n"], ["-p", "-w", "-u"], ["-n", "-u", "-d", "%H:%M:%S%.6f", "--prepend-separator=|"], ["--separator=--\\n"],
                   ["-n", "-l", "--separator=\\t", "--color", "always"], ["-w", "-n", "-z", "+05:30", "--separator=\\n"],
                   ["--separator=\u00a7\u00a7\\n"], ["-n", "--separator=\u2500"], ["-p", "--prepend-separator=\u2502", "--separator=\u65e5\\n"]]
        windows = {0: [[], ["-a", "2023-03-10T03:49:43.561000+00:00"], ["-a", "2023-03-10T03:49:43.560+00:00", "-b", "2023-03-10T03:49:43.566+00:00"]],
                   1: [[], ["-b", "2023-04-02T07:07:00.789680+00:00"]],
                   # (windows that leave exactly one message to a file, and to the whole run)
                   2: [[], ["-b", "2023-04-02T07:06:45+00:00"]],
                   3: [[], ["-b", "2023-04-02T07:07:00.789680+00:00"]],
                   i5: [[], ["-a", "2023-03-10T03:49:43.700+00:00"]],
                   i6: [[], ["-a", gen.fmt_ts(c08.SECS["utmp"][1] + 1, 0, 0, 0)], ["-b", gen.fmt_ts(c08.SECS["utmp"][3] - 1, 0, 0, 0)]],
                   i7: [[], ["-a", gen.fmt_ts(c08.SECS["utmp"][2], 0, 0, 0)]],
                   i4: [[], ["-a", "2000-01-01T00:00:00+00:00", "-b", "2000-01-02T03:04:05+00:00"], ["-a", "2000-01-01T00:00:00+00:00"],
                        ["-b", "2031-05-06T07:08:09+00:00"]],
                   i3: [[], ["-a", gen.fmt_ts(gen.BASE + 2, 0, 0, 0)], ["-a", "2030-01-01"],
                       ["-a", gen.fmt_ts(gen.BASE + 4, 0, 0, 0), "-b", gen.fmt_ts(gen.BASE + 6, 0, 0, 0)],
                       ["-a", gen.fmt_ts(gen.BASE + 7, 0, 0, 0), "-b", gen.fmt_ts(gen.BASE + 7, 0, 0, 0)]]}
        jobs = []
        for si in range(len(sets)):
            for win in windows[si]:
                for o in (optsets if tier == "thorough" else rng.sample(optsets[:7], 3) + [rng.choice(optsets[7:])]):
                    jobs.append((si, win, o))

        def do(job):
            si, win, o = job
            d, files, base_win = sets[si]
            argv = (["--color", "never"] if "--color" not in o else []) + o + (win or base_win)
            r1 = common.run_s4(argv + ["-s"] + files, cwd=d, trace=True, timeout=120)
            r0 = common.run_s4(argv + files, cwd=d, timeout=120)
            return r1, r0

        t0 = time.time()
        with ThreadPoolExecutor(max_workers=8) as ex:
            runs = list(ex.map(do, jobs))
        log("C19: %d run pairs in %.1fs" % (len(runs), time.time() - t0))
        samples = []
        trace_recs = []
        nontriv = 0
        for (si, win, o), (r1, r0) in zip(jobs, runs):
            d, files, base_win = sets[si]
            rec = {"kind": "c19", "set": si, "files": files, "window": win or base_win, "options": o, "rc": r1.rc,
                   "stderr_tail": r1.err[-400:].decode(errors="replace")}
            if r1.crashed or r0.crashed:
                rep.violation("crash", "rc=%s/%s" % (r1.rc, r0.rc), rec)
                continue
            if r1.out != r0.out:
                rep.violation("stdout-changed-by-summary", "--summary changes standard output", rec)
                continue
            if b"Printed bytes" in r1.out or b"Program Summary" in r1.out:
                rep.violation("summary-on-stdout", "summary text on standard output", rec)
            if b"Printed bytes" not in r1.err:
                rep.violation("summary-missing", "no summary on standard error", rec)
                continue
            ev = r1.trace
            colour = "always" in o
            err = c13.SGR.sub(b"", r1.err)
            # with colour the escape sequences are written but (recorded finding) not counted: account on the stripped bytes
            out = c13.SGR.sub(b"", r1.out) if colour else r1.out
            prints = [e for e in ev if e["ev"] == "Print"]
            printed = [e for e in ev if e["ev"] == "Printed"]
            addnl = sum(1 for e in ev if e["ev"] == "AddNl")
            tot = {k: int(rx.search(err).group(1)) if rx.search(err) else None for k, rx in RE_TOT.items()}
            if prints:
                nontriv += 1
            # totals against what was actually written
            if tot["bytes"] != len(r1.out):
                if colour and tot["bytes"] == len(out):
                    rep.violation("colour-escapes-not-counted", "Printed bytes %s, stdout has %d bytes (%d of them colour escape sequences)"
                                  % (tot["bytes"], len(r1.out), len(r1.out) - len(out)), rec)
                else:
                    rep.violation("total-bytes", "Printed bytes %s, stdout has %d bytes" % (tot["bytes"], len(r1.out)), rec)
            kinds = kinds_of[si]
            per_kind = {"text": 0, "record": 0, "event": 0, "entry": 0}
            unknown_w = [e["w"] for e in prints if e["w"] not in kinds]
            if unknown_w:
                # the source numbering is not the one this driver assumes (path order): per-kind totals not checkable
                rep.note_drift("Print events name sources %s, the driver knows %s" % (sorted(set(unknown_w)), sorted(kinds)))
                continue
            for e in prints:
                per_kind[kinds[e["w"]]] += 1
            for key, kk in (("syslines", "text"), ("fixedstruct", "record"), ("evtx events", "event"), ("journal events", "entry")):
                if tot[key] != per_kind[kk]:
                    rep.violation("total-messages:%s" % kk, "Printed %s %s, %d such messages were printed" % (key, tot[key], per_kind[kk]), rec)
            # lines of text messages: split stdout by the byte counts of the Printed events
            seplen = 0
            for x in o:
                if x.startswith("--separator="):
                    # (the backslash escapes used here are \n and \t; everything else is written as UTF-8)
                    seplen = len(x.split("=", 1)[1].encode("utf-8").replace(b"\\n", b"\n").replace(b"\\t", b"\t"))
            pos = 0
            text_lines = 0
            ok_split = True
            k = 0
            evs = [e for e in ev if e["ev"] in ("Print", "Printed", "AddNl")]
            curw = None
            for e in evs:
                if e["ev"] == "Print":
                    curw = e["w"]
                elif e["ev"] == "Printed":
                    chunk = out[pos:pos + e["n"]]
                    pos += e["n"] + seplen
                    if kinds[curw] == "text":
                        text_lines += chunk.count(b"\n") + (0 if chunk.endswith(b"\n") else 1)
                else:
                    pos += 1
            if pos != len(out):
                rep.violation("byte-accounting", "per-message byte counts (+ separators + supplied newlines) give %d, stdout has %d" % (pos, len(out)), rec)
            elif tot["lines"] != text_lines:
                rep.violation("total-lines", "Printed lines %s, text messages wrote %d lines" % (tot["lines"], text_lines), rec)
            # per-file counts add up to the total less separators and supplied newlines
            pf = per_file_bytes(err)
            if sum(pf.values()) + len(printed) * seplen + addnl != tot["bytes"]:
                rep.violation("per-file-sum", "per-file bytes %s + %d separators x %d + %d newlines != total %s" % (pf, len(printed), seplen, addnl, tot["bytes"]), rec)
            byw = {}
            curw = None
            for e in evs:
                if e["ev"] == "Print":
                    curw = e["w"]
                elif e["ev"] == "Printed":
                    byw[curw] = byw.get(curw, 0) + e["n"]
            for w, n in byw.items():
                nm = files[w]
                if pf.get(nm) != n:
                    rep.violation("per-file-bytes", "file %s: summary says %s bytes, %d were written for it" % (nm, pf.get(nm), n), rec)
            # per file: first / last printed instants
            pfl = per_file_first_last(err)
            spans = {}
            for e in prints:
                a_, b_ = spans.get(e["w"], (e["ds"], e["ds"]))
                spans[e["w"]] = (min(a_, e["ds"]), max(b_, e["ds"]))
            for w, (a_, b_) in spans.items():
                nm = files[w]
                if nm in pfl and pfl[nm] != (a_, b_):
                    rep.violation("per-file-first-last", "file %s: summary says first/last printed %s, its %d printed messages span %s..%s"
                                  % (nm, pfl[nm], sum(1 for e in prints if e["w"] == w), a_, b_), rec)
            # first / last printed instants, filter bounds
            if prints:
                first, last = min((e["ds"], e["dn"]) for e in prints), max((e["ds"], e["dn"]) for e in prints)
                if dt_of(err, "Datetime printed first") != first[0] or dt_of(err, "Datetime printed last") != last[0]:
                    rep.violation("first-last", "Datetime printed first/last %s/%s, printed messages span %s..%s"
                                  % (dt_of(err, "Datetime printed first"), dt_of(err, "Datetime printed last"), first[0], last[0]), rec)
            fe = [e for e in ev if e["ev"] == "Filters"]
            if fe:
                fe = fe[0]
                for nm, has, s_ in (("a", fe["ha"], fe["sa"]), ("b", fe["hb"], fe["sb"])):
                    shown = dt_of(err, "Datetime filter -%s" % nm)
                    if (shown is None) != (not has) or (has and shown != s_):
                        rep.violation("filter-line", "Datetime filter -%s shows %s, resolved %s" % (nm, shown, s_ if has else None), rec)
            # I->S: the Totals event against TLC's own sums
            if len(trace_recs) < (8 if tier == "quick" else 40) and prints and len(files) <= runmodel.MAXN and not any(f_.endswith(".journal") for f_ in files):
                inst = {}
                for e in ev:
                    if e["ev"] == "SendStart" and e["k"] == 1:
                        inst.setdefault(int(e["t"][1:]), []).append((e["ds"], e["dn"]))
                nsrc = 1 + max([e["w"] for e in ev if e["ev"] == "Spawn"] + [0])
                ranks = runmodel.rank_table([x for v in inst.values() for x in v])
                dts = [[ranks[x] for x in inst.get(w, [])] for w in range(nsrc)]
                shapes = []
                for w in range(nsrc):
                    fi_ = [e for e in ev if e["ev"] == "SendStart" and e["t"] == "w%d" % w and e["k"] == 0]
                    se_ = [e for e in ev if e["ev"] == "SendStart" and e["t"] == "w%d" % w and e["k"] == 2]
                    shapes.append("fierr" if fi_ and fi_[0]["ok"] == 0 else ("sumerr" if se_ and se_[0]["ds"] == 1 else "ok"))
                trace_recs.append(([runmodel.reset_record(dts, shapes, seplen=seplen)] + runmodel.annotate(ev, ranks), rec))
            if len(samples) < 3 and prints and o:
                samples.append({"files": files, "options": o, "window": win, "totals": tot, "per_file": pf})
        accepted = 0
        tstates = ttrans = 0
        for recs, rec in trace_recs:
            ok, first, tr = runmodel.validate(os.path.join(sc, "tv"), recs, timeout=300)
            tstates += tr.distinct
            ttrans += tr.generated
            if ok:
                accepted += 1
            elif first and first <= len(recs) and recs[first - 1].get("ev") == "Totals":
                rep.violation("trace:Totals", "the totals the program reports differ from the sums over its own Print events", dict(rec, totals=recs[first - 1]))
            elif tr.violated and tr.violated != "postcondition":
                rep.violation("trace:%s" % tr.violated, "recorded run violates %s" % tr.violated, rec)
            else:
                rep.note_drift("summary-run trace not explained at event %s: %s" % (first, recs[first - 1] if first and first <= len(recs) else None))
        rep.coverage = {"states": tstates, "transitions": ttrans, "traces_validated_against_impl": accepted,
                        "evaluations": 2 * len(runs), "distinct_nontrivial": nontriv,
                        "rule": "one evaluation = one run (each case is run with and without --summary); non-trivial = at least one message printed",
                        "samples": samples, "exhaustive": False,
                        "checker_cmd": "tlc -workers 1 TraceS4Run.tla (TTotals: Totals event = sums over Print/Printed/AddNl events)"}
        rep.assumptions = ["'Printed lines' is compared with the lines of text-log messages (records, events and journal entries have their own "
                           "counters)", "datetimes in the summary are shown to whole seconds", "the exhaustive side is C13's Decor.tla byte arithmetic and "
                           "C01/C06's S4Run.tla; this check adds no model states of its own"]
    return rep.finish()
