"""C07: malformed input cannot crash, hang, or disturb other sources.

Model: S4Run.tla with faulty script shapes (FileInfo error; mid-stream error) for 1..2 of N <= 3 sources: TLC
checks isolation (PrintIsEarliest / AllPrintedAtEnd over the healthy sources), termination and the meaning of the
exit status.  Crash-freedom is decided by execution: fault plans (kind x container x fault class x position class
x neighbours) are concretised over valid base files of every kind: every truncation point (thorough) or a stratified
sample (quick), single- and multi-byte corruptions in magic / header / trailer / payload classes, random byte strings
of assorted lengths, valid content under every mismatching name, container-level faults (good gzip member followed by
trailing bytes or further members with a size trailer that claims less / as much / more than the member holds, streams
back to back, tar archives cut or extended or with a member size beyond the archive), well-formed text logs whose
messages are out of chronological order (five notations incl. year-less and Unix-epoch forms), alone and next to 1..3
valid sources."""
import os
import random
import shutil
import subprocess
import time
from concurrent.futures import ThreadPoolExecutor

from . import common, gen, runmodel, c08
from .common import Reporter, Scratch, log, REPO
from .e2e import Case

WALL_BOUND_S = 20.0


def base_files(sc, rng):
    """valid base files: name -> (bytes, kind)"""
    out = {}
    blob, _ = gen.text_source("Z", [(gen.BASE + i, 0) for i in range(30)], frac=0, pad=20)
    out["z.log"] = (blob, "text")
    out["z.log.gz"] = (gen.gz_bytes(blob), "text.gz")
    out["z.log.bz2"] = (gen.bz2_bytes(blob), "text.bz2")
    out["z.log.xz"] = (gen.xz_bytes(blob), "text.xz")
    out["z.log.lz4"] = (gen.lz4_bytes(blob), "text.lz4")
    out["z.tar"] = (gen.tar_bytes([("z.log", blob)]), "text.tar")
    ut = b"".join(c08.rec_bytes(i + 1, 1 + i % 7) for i in range(6))
    out["wtmp"] = (ut, "utmp")
    out["wtmp.gz"] = (gen.gz_bytes(ut), "utmp.gz")
    for rel, name, kind in (("logs/CentOS7/x86_64/lastlog", "lastlog", "lastlog"), ("logs/CentOS7/pacct", "pacct", "acct"),
                            ("logs/NetBSD9.3/x86_64/utmpx", "utmpx", "utmpx-netbsd"),
                            ("logs/FreeBSD13.1/x86_64/utx.log", "utx.log", "utx-freebsd")):
        p = os.path.join(REPO, rel)
        if os.path.exists(p) and os.path.getsize(p) > 0:
            data = open(p, "rb").read()
            out[name] = (data[:20000], kind)
    ev = open(os.path.join(REPO, "logs/programs/evtx/Microsoft-Windows-Kernel-PnP%4Configuration.evtx"), "rb").read()
    out["k.evtx"] = (ev, "evtx")
    out["k.evtx.gz"] = (open(os.path.join(REPO, "logs/programs/evtx/Microsoft-Windows-Kernel-PnP%4Configuration.evtx.gz"), "rb").read(), "evtx.gz")
    jgz = open(os.path.join(REPO, "logs/programs/journal/Ubuntu22-user-1000x3.journal.gz"), "rb").read()
    import gzip
    out["u.journal"] = (gzip.decompress(jgz), "journal")
    out["u.journal.gz"] = (jgz, "journal.gz")
    return out


def positions(n, tier, rng):
    """offset classes: magic, header, middle payload, trailer, plus a stratified / exhaustive set"""
    pts = {0, 1, 2, 3, 4, 7, 8, 15, 16, 31, 64, 127, 128, n // 4, n // 2, (3 * n) // 4, n - 9, n - 8, n - 5, n - 4, n - 2, n - 1}
    pts = {p for p in pts if 0 <= p < n}
    if tier == "thorough":
        if n <= 3000:
            pts |= set(range(n))
        else:
            pts |= set(range(0, 600)) | set(range(n - 300, n)) | set(rng.sample(range(n), 600))
    else:
        pts |= set(rng.sample(range(n), min(n, 8)))
    return sorted(pts)


RECSZ = {"utmp": 384, "utmp.gz": None, "lastlog": 292, "acct": 64, "utmpx-netbsd": 520, "utx-freebsd": 197}


def must_have(name, data, kind):
    """faults every run includes: each byte of the magic/leading fields set to 0xFF and sign-flipped, and for record
    files the leading (type / pid / time) bytes of the first three records"""
    n = len(data)
    pts = set(range(min(16, n)))
    rs = RECSZ.get(kind)
    if rs:
        for k in range(0, 3):
            pts |= {rs * k + j for j in range(8) if rs * k + j < n}
            pts |= {rs * k + rs - 48 + j for j in range(0, 16, 4) if 0 <= rs * k + rs - 48 + j < n}
    for p in sorted(pts):
        for v in (0xFF, data[p] ^ 0x80):
            b = bytearray(data)
            b[p] = v
            yield ("flip1@%s" % cls(p, n), bytes(b), name)
    # every length up to 32 bytes (headers and trailers of the containers are 10 to 30 bytes long: a size check that is off
    # by one shows at exactly one length)
    for ln in range(0, 33):
        yield ("truncate@%d" % ln, data[:ln], name)
    # arbitrary bytes, and the well-formed content repeated and cut, of exactly the sizes at which block-zero analysis
    # changes its demands (8096) -- one byte less, one byte more
    import random as _r
    r_ = _r.Random(len(data) * 31 + len(name))
    for ln in (8095, 8096, 8097):
        yield ("random%d" % ln, bytes(r_.randrange(256) for _ in range(ln)), name)
        if kind == "text" and data:
            yield ("repeat-cut@%d" % ln, (data * (ln // len(data) + 1))[:ln], name)


def structural(name, data, kind):
    """container-level faults every run includes: well-formed pieces put together wrongly.  gz: a good member followed
    by trailing bytes / further members whose last four bytes (the size the reader trusts) claim less, as much, or
    more than the first member inflates to; a single member with a wrong size field.  bz2 / xz / lz4: two streams back
    to back, a stream followed by padding or noise.  tar: data after the end-of-archive blocks, archive cut at a
    512-byte bound, a member header that claims more data than the archive holds."""
    import gzip
    import struct
    if kind.endswith(".gz"):
        plain = gzip.decompress(data)
        n = len(plain)
        claims = [0, 1, n - 1, n, n + 1, n + 7, n + 100, 2 * n, n + 65536, 0xFFFFFFFF]
        for c in claims:
            c &= 0xFFFFFFFF
            yield ("gz-trailing8-claims%+d" % (c - n), data + b"\0\0\0\0" + struct.pack("<I", c), name)
            yield ("gz-trailing64-claims%+d" % (c - n), data + b"\x55" * 60 + struct.pack("<I", c), name)
            yield ("gz-isize%+d" % (c - n), data[:-4] + struct.pack("<I", c), name)
        for extra in (plain[: n // 2], plain, plain + plain[: 100], b"x"):
            yield ("gz-two-members(%d+%d)" % (n, len(extra)), data + gzip.compress(extra), name)
        yield ("gz-empty-member-first", gzip.compress(b"") + data, name)
        yield ("gz-three-members", data + gzip.compress(b"") + data, name)
    elif kind.endswith((".bz2", ".xz", ".lz4")):
        yield ("two-streams", data + data, name)
        yield ("stream+zeros4", data + b"\0" * 4, name)
        yield ("stream+zeros512", data + b"\0" * 512, name)
        yield ("stream+noise", data + bytes(range(7, 71)), name)
        yield ("stream+magic", data + data[:6], name)
        # size fields of the first header holding absurd values (what a reader might size a buffer by before any check sum
        # is looked at): xz block flags announcing compressed / uncompressed sizes followed by a maximal variable-length
        # integer; lz4 frame descriptor announcing a content size of 2^64-1
        if kind.endswith(".xz") and len(data) > 40:
            for flags in (0x80, 0x40, 0xC0):
                for run in (b"\xff" * 8 + b"\x7f", b"\xff" * 9, b"\x80" * 8 + b"\x01", b"\xff\xff\xff\xff\x0f"):
                    b = bytearray(data)
                    b[13] |= flags
                    b[14:14 + len(run)] = run
                    if flags == 0xC0:
                        b[14 + len(run):14 + 2 * len(run)] = run
                    yield ("xz-blocksizes-%02x-%d" % (flags, len(run)), bytes(b), name)
        if kind.endswith(".lz4") and len(data) > 20:
            for size in (b"\xff" * 8, b"\xff" * 7 + b"\x7f", b"\0" * 7 + b"\x40"):
                b = bytearray(data)
                b[4] |= 0x08
                b[6:6] = size
                yield ("lz4-contentsize-%s" % size[-1:].hex(), bytes(b), name)
    elif kind.endswith(".tar"):
        yield ("tar+noise", data + bytes(range(256)) * 2, name)
        yield ("tar+tar", data + data, name)
        for cut in (512, 1024, len(data) - 1024, len(data) - 512):
            if 0 < cut < len(data):
                yield ("tar-cut@%d" % cut, data[:cut], name)
        b = bytearray(data)
        b[124:136] = b"00000777777\0"      # size field of the first member: far beyond the archive
        yield ("tar-size-beyond", bytes(b), name)
        chk = sum(b[:148]) + 8 * 32 + sum(b[156:512])
        b[148:156] = b"%06o\0 " % chk
        yield ("tar-size-beyond-checksum-ok", bytes(b), name)
        # the member's modified-time field at its extremes (octal maximum, base-256 positive maximum, base-256 negative,
        # a year beyond any calendar), header checksum made right again
        for tag, val in (("octal-max", b"77777777777\0"), ("b256-max", bytes([0x80, 0, 0, 0, 0x7f] + [0xff] * 7)), ("b256-neg", bytes([0xff] * 12)),
                         ("b256-year-1e6", bytes([0x80, 0, 0, 0, 0, 0, 0x1c, 0xbf, 0x6a, 0x27, 0x4b, 0x80])), ("blank", b" " * 12), ("garbage", b"9z9z9z9z9z9z")):
            b = bytearray(data)
            b[136:148] = val
            chk = sum(b[:148]) + 8 * 32 + sum(b[156:512])
            b[148:156] = b"%06o\0 " % chk
            yield ("tar-mtime-" + tag, bytes(b), name)


def disorder(rng, tier):
    """well-formed text logs whose messages are NOT in chronological order (reversed, shuffled, one jump of > 1 year
    backwards / forwards, alternating far past / far future), in several timestamp notations incl. year-less syslog and
    Unix-epoch forms: arbitrary content as far as the merge is concerned; the run must still end promptly"""
    import calendar
    import time as _t
    base = 1_700_000_000
    def render(nota, sec, i):
        tt = _t.gmtime(sec)
        if nota == "rfc3339":
            return "%04d-%02d-%02dT%02d:%02d:%02d+00:00 dis idx=%d" % (tt.tm_year, tt.tm_mon, tt.tm_mday, tt.tm_hour, tt.tm_min, tt.tm_sec, i)
        if nota == "syslog":
            return "%s %2d %02d:%02d:%02d host dis[1]: idx=%d" % (calendar.month_abbr[tt.tm_mon], tt.tm_mday, tt.tm_hour, tt.tm_min, tt.tm_sec, i)
        if nota == "epoch_s":
            return "%d dis idx=%d" % (sec, i)
        if nota == "epoch_ms":
            return "%d.%03d dis idx=%d" % (sec, i % 1000, i)
        return "%04d/%02d/%02d %02d:%02d:%02d dis idx=%d" % (tt.tm_year, tt.tm_mon, tt.tm_mday, tt.tm_hour, tt.tm_min, tt.tm_sec, i)
    n = 12 if tier == "quick" else 40
    chron = [base + 3600 * 7 * i for i in range(n)]
    orders = {"reversed": chron[::-1], "shuffled": rng.sample(chron, n),
              "jump-back": chron[: n // 2] + [c - 500 * 86400 for c in chron[n // 2:]],
              "jump-forward": chron[: n // 2] + [c + 500 * 86400 for c in chron[n // 2:]],
              "alternating": [c + (900 * 86400 if i % 2 else -900 * 86400) for i, c in enumerate(chron)],
              "two-lines-back": [base + 40 * 86400, base]}
    for nota in ("rfc3339", "syslog", "epoch_s", "epoch_ms", "slash"):
        for mode, secs in orders.items():
            data = "".join(render(nota, sec, i) + "\n" for i, sec in enumerate(secs)).encode()
            yield ("text", "disorder:%s:%s" % (nota, mode), data, "dis.log")
            if mode in ("shuffled", "two-lines-back"):
                yield ("text.gz", "disorder:%s:%s" % (nota, mode), gen.gz_bytes(data), "dis.log.gz")


def faults(name, data, kind, tier, rng):
    """yield (fault label, faulted bytes, file name)"""
    n = len(data)
    for p in positions(n, tier, rng):
        yield ("truncate@%s" % cls(p, n), data[:p], name)
    for p in positions(n, tier, rng)[:: (2 if tier == "quick" else 1)]:
        for v in ([0xFF] if tier == "quick" else [0x00, 0xFF, data[p] ^ 0x80]):
            b = bytearray(data)
            b[p] = v
            yield ("flip1@%s" % cls(p, n), bytes(b), name)
    for _ in range(4 if tier == "quick" else 40):
        b = bytearray(data)
        p = rng.randrange(n)
        ln = rng.choice([2, 4, 8, 64])
        for j in range(p, min(n, p + ln)):
            b[j] = rng.randrange(256)
        yield ("multi@%s" % cls(p, n), bytes(b), name)
    # (8096 and 65536: the sizes at which block-zero analysis and the block reader change their ways)
    for ln in ([0, 1, 5, 6, 100, 5000, 8095, 8096, 8097] if tier == "quick" else [0, 1, 2, 5, 6, 7, 63, 64, 65, 100, 383, 384, 385, 4096, 8095, 8096, 8097, 65535, 65536, 65537, 70000]):
        yield ("random%d" % ln, bytes(rng.randrange(256) for _ in range(ln)), name)
        yield ("zeros%d" % ln, b"\0" * ln, name)


def cls(p, n):
    if p < 16:
        return "magic"
    if p < 512:
        return "header"
    if p >= n - 16:
        return "trailer"
    return "payload"


MISNAMES = ["x.log", "x.journal", "x.evtx", "wtmp", "lastlog", "acct", "x.log.gz", "x.log.bz2", "x.log.xz", "x.log.lz4", "x.tar",
            "x.journal.gz", "x.evtx.xz", "utmpx", "x.txt.gz"]


def run(pid, tier, seed):
    rep = Reporter(pid, tier, seed, "fault_enumeration")
    rng = random.Random(seed * 6151 + 7)
    common.build_s4()
    common.build_harness(["mk_lz4"])
    with Scratch(pid) as sc:
        # ---- model: isolation / termination with faulty shapes
        invs = ["AllPrintedAtEnd", "NoneUnreachable", "RetMeaning", "PendingLive", "ChanBound"]
        props = ["PrintIsEarliest", "Terminates", "Exits"]
        cfgs = [("f-n2m2", runmodel.s4run_constants(2, 2, {1, 2}, shapes=("ok", "fierr", "sumerr")))]
        if tier == "thorough":
            cfgs.append(("f-n3m1", runmodel.s4run_constants(3, 1, {1, 2}, shapes=("ok", "fierr", "sumerr"))))
        states = trans = 0
        for name, consts in cfgs:
            r = runmodel.model_check(os.path.join(sc, "tlc"), name, consts, invs, props, workers=10, timeout=1500)
            if r.violated:
                rep.violation("model:%s" % r.violated, "S4Run.tla with faulty sources violates %s" % r.violated,
                              {"kind": "tlc", "cmd": r.cmd, "tail": r.output[-2000:]})
            else:
                common.tlc_must_pass(r, name)
            states += r.distinct
            trans += r.generated

        # ---- valid neighbours
        neigh = []
        for w, letter in enumerate("ABC"):
            blob, msgs = gen.text_source(letter, [(gen.BASE + 2 * i + w, 0) for i in range(8)], frac=0, pad=10)
            neigh.append(("n%s.log" % letter, blob, msgs))
        base = base_files(sc, rng)
        cases = []
        budget = 700 if tier == "quick" else 25000
        plans = []
        for name, (data, kind) in base.items():
            fl = list(faults(name, data, kind, tier, rng))
            if tier == "quick":
                rng.shuffle(fl)
                fl = fl[: max(20, budget // len(base))]
            fl += list(must_have(name, data, kind))
            fl += list(structural(name, data, kind))
            for label, fdata, fname in fl:
                plans.append((kind, label, fdata, fname))
        # valid content under mismatching names
        for name, (data, kind) in base.items():
            for mis in (MISNAMES if tier == "thorough" else rng.sample(MISNAMES, 4)):
                plans.append((kind, "misnamed:" + mis, data, mis))
        if len(plans) > 3 * budget:
            plans = rng.sample(plans, 3 * budget)
        dis = list(disorder(rng, tier))
        plans += dis + [(k_, l_ + "+window", d_, f_) for (k_, l_, d_, f_) in dis]
        for kind, label, fdata, fname in plans:
            k = rng.choice([0, 0, 1, 2, 3])
            if label.endswith("+window"):
                k = 0      # (the window would cut the neighbours too: these runs are about ending promptly)
            ns = neigh[:k]
            files = {fname: fdata}
            argv = ["--color", "never"]
            if rng.random() < 0.3:
                argv.append("--summary")      # (the summary goes to stderr; it walks every source's reader and error state)
            if label.startswith("disorder") and label.endswith("+window"):
                # a window makes the plain reader binary-search a file that is not sorted
                argv += rng.choice([["-a", "2023-11-20T00:00:00+00:00"], ["-a", "2023-11-15T03:20:00+00:00", "-b", "2023-11-16T10:20:00+00:00"],
                                    ["-b", "2023-11-15T10:20:00+00:00"], ["-a", "2030-01-01"], ["-a", "1999-01-01", "-b", "2000-01-01"]])
            order = [fname] + [n[0] for n in ns]
            rng.shuffle(order)
            for n_ in ns:
                files[n_[0]] = n_[1]
            exp_valid = b"".join(m.data for m in gen.expected_merge([n_[2] for n_ in ns if True]))
            # expected order among valid sources follows their PathId order = argv order
            srcs = [n_[2] for nm in order for n_ in ns if n_[0] == nm]
            exp_valid = b"".join(m.data for m in gen.expected_merge(srcs))
            cases.append((Case(files, argv + order, None, note={"kind": kind, "fault": label, "neighbours": k}, timeout=WALL_BOUND_S),
                          kind, label, exp_valid, [n_[0][1] for n_ in ns]))

        def do(ic):
            i, (case, kind, label, exp_valid, letters) = ic
            tmp = os.path.join(sc, "tmp", "t%d" % i)
            os.makedirs(tmp)
            rr = case.run(os.path.join(sc, "e2e", "c%d" % i), tmpdir=tmp)
            left = os.listdir(tmp)
            shutil.rmtree(os.path.join(sc, "e2e", "c%d" % i), ignore_errors=True)
            shutil.rmtree(tmp, ignore_errors=True)
            return rr, left

        t0 = time.time()
        with ThreadPoolExecutor(max_workers=10) as ex:
            runs = list(ex.map(do, list(enumerate(cases))))
        log("C07: %d faulted runs in %.1fs" % (len(runs), time.time() - t0))
        distinct = set()
        samples = []
        for (case, kind, label, exp_valid, letters), (rr, left) in zip(cases, runs):
            fc = label.split("@")[0].rstrip("0123456789") if not label.startswith("misnamed") else "misnamed"
            if fc.startswith(("gz-", "tar", "two-streams", "stream+")):
                fc = "structural"
            if fc.startswith("disorder"):
                fc = ":".join(label.split(":")[:2])
            distinct.add((kind, label, case.note["neighbours"]))
            if rr.timed_out:
                rep.violation("hang:%s:%s" % (kind, fc), "no exit within %.0fs (%s, %s)" % (WALL_BOUND_S, kind, label), case.replay_record(rr))
                continue
            if rr.rc not in (0, 1) or b"panicked at" in rr.err:
                rep.violation("crash:%s:%s" % (kind, fc), "rc=%s (%s, %s): %r" % (rr.rc, kind, label, rr.err[-160:]), case.replay_record(rr))
                continue
            if letters:
                # (a record file's known stray NUL after its newline lands in front of the next line: not part of it)
                got = b"".join(ln.lstrip(b"\0") + b"\n" for ln in rr.out.split(b"\n")
                               if any((b" src=%s idx=" % L.encode()) in ln for L in letters))
                if got != exp_valid:
                    case.expected = None
                    rep.violation("valid-output:%s:%s" % (kind, fc),
                                  "messages of the well-formed sources are not all printed in order next to a faulted %s (%s)" % (kind, label),
                                  case.replay_record(rr))
                    continue
            if left:
                rep.violation("tempfile-left:%s:%s" % (kind, fc), "temp file left behind: %s" % left, case.replay_record(rr))
            if len(samples) < 4 and rr.rc == 1:
                samples.append({"kind": kind, "fault": label, "neighbours": case.note["neighbours"], "rc": rr.rc,
                                "stderr": rr.err[-120:].decode(errors="replace")})
        rep.coverage = {"evaluations": len(runs), "distinct_nontrivial": len(distinct),
                        "rule": "one evaluation = one run with one faulted file (kind x fault class x position) alone or next to 1..3 "
                                "valid text sources; distinct by (kind, fault label, number of neighbours); every one is non-trivial",
                        "samples": samples or [{"note": "no run exited 1"}], "states": states, "transitions": trans,
                        "kinds": sorted({c[1] for c in cases}), "exhaustive": False}
        rep.assumptions = ["crash-freedom is decided by executing enumerated faults, not by the model", "wall-clock bound %.0fs on "
                           "kilobyte-to-megabyte inputs" % WALL_BOUND_S, "valid neighbours are text logs whose lines are attributable"]
    return rep.finish()
