"""Concrete text-log files for the TextLog / BlockZero specifications: byte layouts of abstract files, the
B-free oracle Printed(file), and the block-zero acceptance predicate (mirror of spec/BlockZero.tla)."""
from . import gen

TS = "2024-01-%02dT%02d:%02d:%02d"
SYSLOG_SZ_MAX = 8096  # cross-checked against the build by consts (src/common.rs)

UNDATED_ALPHABET = [b"x", b"\x00", b"\xff", b"\r", b" ", b"\t", b"y"]


def ts_for(k):
    """k-th timestamp (non-decreasing)"""
    sec = k
    return (TS % (1 + (sec // 86400) % 28, (sec // 3600) % 24, (sec // 60) % 60, sec % 60)).encode()


# the head of a dated line in other supported notations (the k-th instant as above); every one starts the line, so a
# block boundary can fall inside any part of the timestamp.  NOTATION_TSLEN = bytes up to the end of the timestamp.
NOTATIONS = ["iso", "rfc3339", "bracket", "epoch", "syslog_year", "level", "leap"]
MON = ["Jan", "Feb", "Mar", "Apr", "May", "Jun", "Jul", "Aug", "Sep", "Oct", "Nov", "Dec"]


def ts_head(k, notation="iso"):
    d, h, m, s_ = 1 + (k // 86400) % 28, (k // 3600) % 24, (k // 60) % 60, k % 60
    if notation == "iso":
        return ts_for(k)
    if notation == "rfc3339":
        return b"2024-01-%02dT%02d:%02d:%02d.%03d+00:00" % (d, h, m, s_, k % 1000)
    if notation == "bracket":
        return b"[2024-01-%02d %02d:%02d:%02d.%03d +0000]" % (d, h, m, s_, k % 1000)
    if notation == "epoch":
        return b"%d" % (1704067200 + k)
    if notation == "syslog_year":
        return b"2024 Jan %2d %02d:%02d:%02d host app:" % (d, h, m, s_)
    if notation == "level":
        return b"INFO 2024-01-%02d %02d:%02d:%02d" % (d, h, m, s_)
    if notation == "leap":
        # a leap second (seconds value 60): a legal timestamp, and the start of a message like any other
        return b"2016-12-31 23:59:60.%03d" % (k % 1000)
    raise ValueError(notation)


def notation_tslen(notation):
    return len(ts_head(86400 * 9 + 3600 * 11 + 61, notation))


class Layout:
    """A concrete file: list of lines (bytes incl. newline except possibly the last), which are dated."""

    def __init__(self, lines, dated):
        self.lines, self.dated = lines, dated
        self.tslen = 19          # bytes of a dated line up to the end of its timestamp
        self.data = b"".join(lines)
        self.beg = []
        o = 0
        for ln in lines:
            self.beg.append(o)
            o += len(ln)
        self.size = o

    def line_end(self, i):
        return self.beg[i] + len(self.lines[i]) - 1

    def first_dated(self):
        for i, d in enumerate(self.dated):
            if d:
                return i
        return None

    def printed(self):
        """Printed(file): bytes from the first dated line to EOF, a missing final newline supplied."""
        i = self.first_dated()
        if i is None:
            return b""
        out = self.data[self.beg[i]:]
        if not out.endswith(b"\n"):
            out += b"\n"
        return out

    def messages(self):
        """[(first line, last line)]"""
        heads = [i for i, d in enumerate(self.dated) if d]
        return [(h, (heads[j + 1] - 1) if j + 1 < len(heads) else len(self.lines) - 1) for j, h in enumerate(heads)]


def concretise(kinds, nl, rng, pads=(0, 1, 5, 11), ulens=(0, 1, 2, 7), body=None, notation="iso"):
    """kinds: sequence of 'D'/'U'; nl: final newline present.  Byte lengths drawn from small sets so that
    every alignment against small block sizes occurs."""
    lines = []
    k = 0
    n = len(kinds)
    for i, kd in enumerate(kinds):
        last = i == n - 1
        if kd == "D":
            k += rng.choice([0, 1, 1, 2])
            pad = rng.choice(pads)
            if notation == "epoch":
                pad = max(pad, 2)      # (a bare epoch value is recognised when a blank and one more byte follow it)
            ln = ts_head(k, notation) + (b" " + b"p" * (pad - 1) if pad else b"")
        else:
            u = rng.choice(ulens)
            if last and not nl and u == 0:
                u = 1
            ln = b"".join(rng.choice(UNDATED_ALPHABET) for _ in range(u))
            if ln[:1].isdigit():
                ln = b"x" + ln[1:]
        if not (last and not nl):
            ln += b"\n"
        lines.append(ln)
    return Layout(lines, [kd == "D" for kd in kinds])


def blockzero_predict(layout, B, tslen=None):
    """'accept' | 'reject' | 'unknown' for the block-zero analysis at block size B.
    Mirror of spec/BlockZero.tla (a transcription of SyslogProcessor::blockzero_analysis*): lines are looked for
    only inside the block in which they start; a line cut by the end of that block is "partial".
    'unknown' marks the one case the specification leaves open (a partial dated line whose timestamp lies
    inside the block: the datetime may or may not be recognised in the fragment)."""
    if tslen is None:
        tslen = layout.tslen
    size = layout.size
    n = len(layout.lines)
    s0 = min(B, size)
    if s0 == 0 or s0 < min(6, B):
        return "reject"
    if all(b == 0 for b in layout.data[: min(128, s0)]):
        return "reject"
    big = s0 >= SYSLOG_SZ_MAX
    beg = layout.beg

    def complete(i):
        return beg[i] // B == layout.line_end(i) // B

    def line_at(fo):
        for i in range(n):
            if beg[i] == fo:
                return i
        return None

    # lines
    need_lines = 3 if big else 1
    found = 0
    i = 0
    while found < need_lines and i < n:
        if complete(i):
            found += 1
            i += 1
            if i < n and beg[i] // B != 0:
                break
        else:
            found += 1  # partial line counts
            break
    if found < need_lines:
        return "reject"

    # syslines
    need = 2 if big else 1
    unknown = [False]

    def sysline_in_block(i):
        """returns ('found', next_line_index) | ('partial',) | ('none',)"""
        # loop A: first dated line, complete within its block
        while True:
            if i >= n:
                return ("none",)
            if not complete(i):
                if layout.dated[i] and (beg[i] // B + 1) * B - beg[i] >= tslen:
                    unknown[0] = True
                return ("none",)
            if layout.dated[i]:
                break
            i += 1
        # loop B: lines of this message until the next dated line
        j = i + 1
        while True:
            if j >= n:
                return ("found", n)
            if not complete(j):
                return ("partial",)
            if layout.dated[j]:
                return ("found", j)
            j += 1

    found = 0
    i = 0
    while found < need and i is not None and i < n and beg[i] // B == 0:
        r = sysline_in_block(i)
        if r[0] == "found":
            found += 1
            i = r[1]
        elif r[0] == "partial":
            found += 1
            break
        else:
            break
    if found >= need:
        return "accept"
    return "unknown" if unknown[0] else "reject"


def relative_lengths(B):
    return sorted({1, 2, B - 1, B, B + 1, 2 * B - 1, 2 * B, 2 * B + 1, 3 * B + 5} - {0, -1})


def e2e_layout(rng, B, nmsgs, final_nl=True, long_lines=False, first_undated=0, crlf=False, safe_head=True, notation="iso",
               early_nul=False):
    """A file whose line lengths are chosen relative to block size B (B-1, B, B+1, 2B+-1, many blocks), with
    continuation lines, blank lines, CRLF, NUL and non-UTF-8 bytes."""
    lines, dated = [], []
    k = 0
    for _ in range(first_undated):
        lines.append(b"preamble without timestamp " + b"u" * rng.choice([0, 3, B // 2]) + b"\n")
        dated.append(False)
    if safe_head:
        # two one-line messages first: block-zero analysis accepts such a file at every block size >= 64
        # (each is complete within the first block); now and then they are padded to end exactly on byte 63 / 127
        for j in range(2):
            k += 1
            ln = ts_head(k, notation) + b" head"
            if rng.random() < 0.4:
                want = 64 if j == 0 else rng.choice([64, 26])
                ln += b"." * max(0, want - len(ln) - 1)
            lines.append(ln + b"\n")
            dated.append(True)
            if early_nul and j == 0:
                # NUL bytes right at the start of the file: in the first head line's tail or on its continuation line
                lines.append(rng.choice([b"\0", b"bin\0\0\0dump", b"\0\0\0\0\0\0\0\0"]) + b"\n")
                dated.append(False)
    targets = relative_lengths(B)
    if long_lines:
        targets += [2057, 2100, 4113, 70000]
    for m in range(nmsgs):
        k += rng.choice([0, 1, 1, 3, 60])
        head = ts_head(k, notation) + b" msg=%d " % m
        want = rng.choice(targets + [30, 40, 71])
        eol = b"\r\n" if crlf and rng.random() < 0.5 else b"\n"
        if want > len(head) + len(eol):
            head += b"h" * (want - len(head) - len(eol))
        lines.append(head + eol)
        dated.append(True)
        for c in range(rng.choice([0, 0, 0, 1, 2, 4])):
            want = rng.choice(targets + [1, 1, 5])
            body = bytearray()
            for j in range(max(0, want - 1)):
                body.append(rng.choice([120, 120, 120, 32, 0, 255, 13, 9, 121]))
            if body[:1].isdigit() or (body[:1] or b"x") in (b" ",) and False:
                body[0] = 120
            lines.append(bytes(body) + b"\n")
            dated.append(False)
    if not final_nl and lines:
        if lines[-1].endswith(b"\r\n"):
            lines[-1] = lines[-1][:-2]
        else:
            lines[-1] = lines[-1][:-1]
        if not lines[-1]:
            lines[-1] = b"x"
    lay = Layout(lines, dated)
    lay.tslen = notation_tslen(notation)
    return lay


def boundary_layout(rng, B, first_lines=1, nmsgs=25, notation="iso", continuation=False, shift=0):
    """The first `first_lines` one-line messages together end exactly on the last byte of a block of size B; the next
    line starts on byte 0 of the following block and is longer than a block."""
    lines, dated = [], []
    k = 0
    remaining = B + shift      # (shift = 1: the newline that ends them is the FIRST byte of the next block)
    for j in range(first_lines):
        k += 1
        ln = ts_head(k, notation) + b" first"
        want = remaining if j == first_lines - 1 else max(len(ln) + 1, remaining // (first_lines - j))
        ln += b"." * max(0, want - len(ln) - 1)
        lines.append(ln + b"\n")
        dated.append(True)
        remaining -= len(lines[-1])
    if continuation:
        # the line that starts the next block belongs to the message before it: a continuation line longer than a block,
        # then a short one
        lines.append(b" at " + b"c" * rng.choice([B + 22, 2 * B + 1, 3 * B]) + b"\n")
        dated.append(False)
        lines.append(b" caused by: short\n")
        dated.append(False)
    for m in range(nmsgs):
        k += 1
        head = ts_head(k, notation) + b" msg=%d " % m
        want = rng.choice([B + 22, 2 * B + 1, 150, 3 * B]) if m < 2 else rng.choice([30, 45, B, B + 1, 2 * B])
        head += b"h" * max(0, want - len(head) - 1)
        lines.append(head + b"\n")
        dated.append(True)
    lay = Layout(lines, dated)
    lay.tslen = notation_tslen(notation)
    return lay


def exact_size_layout(rng, size, notation="iso"):
    """one-line messages (a few with a continuation line) making a file of exactly `size` bytes"""
    lines, dated = [], []
    k = 0
    total = 0
    while True:
        k += 1
        head = ts_head(k, notation) + b" exact n=%d " % k
        left = size - total
        if left < len(head) + 140:
            ln = head + b"z" * (left - len(head) - 1) + b"\n"
            lines.append(ln)
            dated.append(True)
            break
        ln = head + b"e" * rng.choice([0, 11, 47]) + b"\n"
        lines.append(ln)
        dated.append(True)
        total += len(ln)
        if k % 7 == 3:
            c = b"   continued\n"
            lines.append(c)
            dated.append(False)
            total += len(c)
    lay = Layout(lines, dated)
    lay.tslen = notation_tslen(notation)
    assert lay.size == size, (lay.size, size)
    return lay


def span_layout(rng, B, notation="iso", nblocks=3, parts=1):
    """Block zero is filled exactly by two short messages; the next message (one long line, or `parts` lines) runs over
    `nblocks` blocks and its last newline is the FIRST byte of the block after them; short messages follow in that block."""
    lines, dated = [], []
    k = 0

    def head():
        nonlocal k
        k += 1
        return ts_head(k, notation) + b" sp=%d " % k
    h1 = head()
    l1 = h1 + b"a" * max(0, B // 2 - len(h1) - 1) + b"\n"
    h2 = head()
    l2 = h2 + b"b" * (B - len(l1) - len(h2) - 1) + b"\n"
    lines += [l1, l2]
    dated += [True, True]
    total = nblocks * B + 1          # from offset B to the newline at offset (nblocks + 1) * B
    h3 = head()
    if parts == 1:
        lines.append(h3 + b"m" * (total - len(h3) - 1) + b"\n")
        dated.append(True)
    else:
        first = h3 + b"m" * 40 + b"\n"
        lines.append(first)
        dated.append(True)
        rest = total - len(first)
        per = rest // (parts - 1)
        for q in range(parts - 1):
            ln = per if q < parts - 2 else rest - per * (parts - 2)
            lines.append(b"   at " + b"c" * (ln - 7) + b"\n")
            dated.append(False)
    for _ in range(12):
        h = head()
        lines.append(h + b"s" * rng.choice([0, 3, 9]) + b"\n")
        dated.append(True)
    lay = Layout(lines, dated)
    lay.tslen = notation_tslen(notation)
    assert lay.data[(nblocks + 1) * B:(nblocks + 1) * B + 1] == b"\n" and lay.size > (nblocks + 1) * B + 40
    return lay
