"""C13: prepended fields, separators and colour are pure decoration.

Spec: Decor.tla -- Tokens(message, options): per line [CLR][FILE][DT]LINE[RST], SEP after the message; TLC checks on
the whole option matrix that stripping the decoration tokens leaves the undecorated tokens and that FILE precedes DT
for every kind and colour, and emits the option tuples.  Code: for every tuple the real binary is run on a source set
with all four kinds of message (multi-line text, a wide non-ASCII file name, accounting records, event-log records,
journal entries); the decorated stdout (SGR sequences removed) must be exactly what Tokens prescribes, built from
the undecorated run's messages (byte ranges and instants from its Print events), the file names and the option
values: so deleting the fields and separators leaves the undecorated output byte for byte, the field order and
separator are the same for every kind and colour, names are padded to the widest printed name, and the datetime
field is the message's instant in the requested format and zone."""
import os
import random
import re
import shutil
import subprocess
import time
import unicodedata
from concurrent.futures import ThreadPoolExecutor

from . import common, gen, c08
from .common import Reporter, Scratch, ToolError, log, tlc, write_cfg, REPO
from .e2e import first_diff

SGR = re.compile(rb"\x1b\[[0-9;]*m")
PSEP = {"colon": ":", "bar": "|", "spaced": " - ", "wide": " \u2500\u253c\u2500\u2500\u253c\u2500 "}
SEP = {"empty": ("", b""), "nl": ("\\n", b"\n"), "dashes": ("--\\n", b"--\n"), "tab": ("\\t", b"\t")}
ZONE = {"utc": (["-u"], 0), "local": (["-l"], 0), "plus0530": (["-z", "+05:30"], 330), "minus0800": (["--prepend-tz=-08:00"], -480)}
FMT = {"default": None, "iso": "%Y-%m-%dT%H:%M:%S%:z", "time6": "%H:%M:%S%.6f", "verbose": "%A, %d %B %Y %H:%M:%S%.6f %:z"}


def width(s):
    return sum(2 if unicodedata.east_asian_width(c) in ("W", "F") else (0 if unicodedata.combining(c) else 1) for c in s)


def fmt_dt(secs, nanos, off_min, fmt):
    t = time.gmtime(secs + off_min * 60)
    sign = "+" if off_min >= 0 else "-"
    hh, mm = abs(off_min) // 60, abs(off_min) % 60
    if fmt == "default":
        return "%04d%02d%02dT%02d%02d%02d.%03d%s%02d%02d" % (t.tm_year, t.tm_mon, t.tm_mday, t.tm_hour, t.tm_min, t.tm_sec,
                                                             nanos // 10**6, sign, hh, mm)
    if fmt == "iso":
        return "%04d-%02d-%02dT%02d:%02d:%02d%s%02d:%02d" % (t.tm_year, t.tm_mon, t.tm_mday, t.tm_hour, t.tm_min, t.tm_sec, sign, hh, mm)
    if fmt == "verbose":
        import calendar
        return "%s, %02d %s %04d %02d:%02d:%02d.%06d %s%02d:%02d" % (calendar.day_name[t.tm_wday], t.tm_mday, calendar.month_name[t.tm_mon], t.tm_year,
                                                                     t.tm_hour, t.tm_min, t.tm_sec, nanos // 1000, sign, hh, mm)
    return "%02d:%02d:%02d.%06d" % (t.tm_hour, t.tm_min, t.tm_sec, nanos // 1000)


def source_sets(sc):
    """two source sets: (dir, argv files, window args)"""
    sets = []
    # S1: text (multi-line), wide-named text, accounting records, event log (cut to its first records by -b)
    d1 = os.path.join(sc, "s1")
    os.makedirs(d1)
    base = 1678420183  # 2023-03-10T03:49:43Z, the first event-log record is at .558721
    a = b""
    for i in range(3):
        a += ("2023-03-10T03:49:43.%03d+00:00 src=A idx=%d\n" % (559 + 3 * i, i)).encode()
        a += b"  continuation of %d\n\ttabbed\n" % i if i != 1 else b""
    # messages of one file within the same millisecond, microseconds apart (the datetime field shows them with %.6f)
    a += b"2023-03-10T03:49:43.565100+00:00 src=A idx=3\n2023-03-10T03:49:43.565100+00:00 src=A idx=4\n2023-03-10T03:49:43.565900+00:00 src=A idx=5\n"
    with open(os.path.join(d1, "a.log"), "wb") as f:
        f.write(a)
    wide = "日本-é.log"
    with open(os.path.join(d1, wide), "wb") as f:
        f.write(("2023-03-10T03:49:43.560+00:00 src=W idx=0\n2023-03-10T03:49:43.566+00:00 src=W idx=1").encode())
    ut = b"".join(gen.utmp_record(7, 1000 + i, b"pts/%d" % i, b"t%d" % i, b"user%d" % i, b"h%d" % i, base, 561000 + (2000 * i if i < 3 else 4000 + 300 * (i - 2)), session=i)
                  for i in range(5))
    with open(os.path.join(d1, "wtmp"), "wb") as f:
        f.write(ut)
    shutil.copyfile(os.path.join(REPO, "logs/programs/evtx/Microsoft-Windows-Kernel-PnP%4Configuration.evtx"), os.path.join(d1, "k.evtx"))
    # sources that are read but print nothing, under the widest names of the set: one without any timestamp, one whose
    # messages all lie after the window (-w pads to the widest PRINTED name)
    silent1 = "zz silent source with the longest name of all \u65e5\u672c\u8a9e.log"
    with open(os.path.join(d1, silent1), "wb") as f:
        f.write(b"no timestamp on this line\nnor on this one\n" * 3)
    silent2 = "zz-after-the-window-and-also-quite-long.log"
    with open(os.path.join(d1, silent2), "wb") as f:
        f.write(b"2023-03-11T00:00:00+00:00 src=S idx=0\n2023-03-11T00:00:01+00:00 src=S idx=1\n")
    # a name that would mean something to a formatter: per cent signs, braces, a backslash
    pct = "rate%d 100%% {0} %Y\\n.log"
    with open(os.path.join(d1, pct), "wb") as f:
        f.write(b"2023-03-10T03:49:43.563+00:00 src=P idx=0\n2023-03-10T03:49:43.564+00:00 src=P idx=1\n  more of P\n")
    sets.append((d1, ["a.log", wide, "wtmp", "k.evtx", silent1, silent2, pct], ["-b", "2023-03-10T03:49:43.570000+00:00"]))
    # S2: journal + text
    d2 = os.path.join(sc, "s2")
    os.makedirs(d2)
    with open(os.path.join(d2, "u.journal"), "wb") as f:
        subprocess.run(["gzip", "-dc", os.path.join(REPO, "logs/programs/journal/Ubuntu22-user-1000x3.journal.gz")], stdout=f, check=True)
    with open(os.path.join(d2, "b.log"), "wb") as f:
        f.write(b"2023-04-02T07:06:50+00:00 src=B idx=0\n  more\n2023-04-02T07:07:00.789680+00:00 src=B idx=1\n")
    # lines longer than the printer's internal buffer (2056 bytes), as head line and as continuation line
    with open(os.path.join(d2, "long.log"), "wb") as f:
        f.write(b"2023-04-02T07:06:45+00:00 src=L idx=0 " + b"L" * 3000 + b"\n" +
                b"2023-04-02T07:06:55+00:00 src=L idx=1 short head\n" + b"  " + b"c" * 2500 + b"\n" +
                b"2023-04-02T07:07:05+00:00 src=L idx=2 " + b"e" * 2100 + b"\n")
    silent3 = "zzz-nothing-datable-in-here-but-a-long-name.log"
    with open(os.path.join(d2, silent3), "wb") as f:
        f.write(b"plain words\n" * 5)
    # a text log of several blocks at the default block size (lines that lie across a block end are written in two pieces)
    with open(os.path.join(d2, "big.log"), "wb") as f:
        pos = 0
        # (the timestamp of one head line lies ACROSS the end of the first default-size block, that of another ends on the
        #  last byte of the second block, a third begins on the first byte of the fourth)
        targets = {65536 - 10: None, 2 * 65536 - 29: None, 3 * 65536: None}
        for i in range(1300):
            ln = b"2023-04-02T07:06:%02d.%03d+00:00 src=G idx=%d %s\n" % (40 + i // 100, (i % 100) * 10, i, b"g" * (60 + (i * 37) % 150))
            nxt = [t_ for t_ in targets if pos < t_ <= pos + len(ln) + 260 and t_ - pos >= 60]
            if nxt:
                ln = ln[:-1] + b"g" * (nxt[0] - pos - len(ln)) + b"\n" if nxt[0] - pos >= len(ln) else ln[:nxt[0] - pos - 1] + b"\n"
                del targets[nxt[0]]
            f.write(ln)
            pos += len(ln)
            if i % 9 == 4 and not any(pos < t_ <= pos + 400 for t_ in targets):
                c_ = b"   second line of idx=%d %s\n" % (i, b"s" * (i % 120))
                f.write(c_)
                pos += len(c_)
    sets.append((d2, ["b.log", "u.journal", "long.log", silent3], []))
    sets.append((d2, ["big.log", "b.log"], []))
    # S3: messages with EMPTY lines inside them: every journal entry in the export rendering ends with one; a text message
    # with blank continuation lines (one, two in a row, one at its very end)
    with open(os.path.join(d2, "blank.log"), "wb") as f:
        f.write(b"2023-04-02T07:06:50+00:00 src=K idx=0\n\n  after one blank\n\n\n  after two blanks\n"
                b"2023-04-02T07:07:00.789680+00:00 src=K idx=1\n\n2023-04-02T07:07:10+00:00 src=K idx=2\n")
    sets.append((d2, ["blank.log", "u.journal"], ["--journal-output", "export"]))
    return sets


def run(pid, tier, seed):
    rep = Reporter(pid, tier, seed, "model_checking")
    rng = random.Random(seed * 4421 + 13)
    common.build_s4()
    with Scratch(pid) as sc:
        cfg = write_cfg(os.path.join(sc, "tlc", "dc.cfg"), {}, spec="Spec", invariants=["StripIsPlain", "FileBeforeDate", "ByteArithmetic", "Dump"])
        r = tlc("Decor", cfg, os.path.join(sc, "tlc"), workers=1, timeout=900)
        if r.violated:
            rep.violation("model:Decor:%s" % r.violated, "Decor.tla violates %s" % r.violated, {"kind": "tlc", "cmd": r.cmd})
            tuples = []
        else:
            common.tlc_must_pass(r, "Decor")
            tuples = [tuple(x[1:]) for x in common.tla_prints(r.output, "OPTS")]
        if tier == "quick":
            # a covering subset: every value of every option, every (file, zone, color) triple, plus a random sample
            keep = {}
            for t in tuples:
                keep.setdefault((t[0], t[2], t[6]), t)
                if t[2] != "none":
                    keep.setdefault(("fmt", t[3], t[4], t[6]), t)      # every (format, field separator, colour) triple as well
            sample = list(keep.values()) + rng.sample(tuples, min(len(tuples), 90))
            tuples = list(dict.fromkeys(sample))
        sets = source_sets(sc)
        # undecorated, traced reference runs
        refs = []
        for d, files, win in sets:
            rr = common.run_s4(["--color", "never"] + win + files, cwd=d, trace=True, timeout=120)
            if rr.crashed:
                raise ToolError("reference run failed: %r" % rr.err[-300:])
            msgs = []
            pos = 0
            evs = rr.trace
            i = 0
            prints = [e for e in evs if e["ev"] == "Print"]
            printed = [e for e in evs if e["ev"] == "Printed"]
            addnl = {}
            cur = None
            for e in evs:
                if e["ev"] == "Print":
                    cur = e
                elif e["ev"] == "Printed":
                    n = e["n"]
                    msgs.append({"w": cur["w"], "ds": cur["ds"], "dn": cur["dn"], "data": rr.out[pos:pos + n], "addnl": False})
                    pos += n
                elif e["ev"] == "AddNl":
                    msgs[-1]["addnl"] = True
                    pos += 1
            if pos != len(rr.out):
                raise ToolError("Print events account for %d bytes, stdout has %d" % (pos, len(rr.out)))
            refs.append((rr.out, msgs))

        def expected(si, t):
            fmode, align, zone, fmtk, psepk, sepk, color = t
            d, files, win = sets[si]
            out_u, msgs = refs[si]
            psep = PSEP[psepk]
            printed_w = sorted({m["w"] for m in msgs})
            names = {}
            for w in printed_w:
                nm = files[w] if fmode == "path" else os.path.basename(files[w])
                names[w] = nm
            wmax = max([width(n) for n in names.values()] + [0]) if align else 0
            exp = b""
            for m in msgs:
                pre = ""
                if fmode != "none":
                    nm = names[m["w"]]
                    pre += nm + " " * max(0, wmax - width(nm)) + psep
                if zone != "none":
                    pre += fmt_dt(m["ds"], m["dn"], ZONE[zone][1], fmtk) + psep
                data = m["data"]
                tail = b""
                if data.endswith(b"\n\0"):       # accounting record: the stray NUL after the newline carries no fields
                    data, tail = data[:-1], b"\0"
                lines = data.split(b"\n")
                body = b""
                for j, ln in enumerate(lines):
                    if j == len(lines) - 1 and ln == b"":
                        break
                    body += pre.encode() + ln + (b"\n" if j < len(lines) - 1 else b"")
                exp += body + tail + SEP[sepk][1] + (b"\n" if m["addnl"] else b"")
            return exp

        jobs = [(si, t) for si in range(len(sets)) for t in tuples]

        def do(job):
            si, t = job
            fmode, align, zone, fmtk, psepk, sepk, color = t
            d, files, win = sets[si]
            argv = ["--color", color] + win
            if fmode == "name":
                argv.append("-n")
            elif fmode == "path":
                argv.append("-p")
            if align:
                argv.append("-w")
            if zone != "none":
                argv += ZONE[zone][0]
                if FMT[fmtk]:
                    argv += ["-d", FMT[fmtk]]
            argv.append("--prepend-separator=" + PSEP[psepk])
            if sepk != "empty":
                argv.append("--separator=" + SEP[sepk][0])
            rr = common.run_s4(argv + files, cwd=d, timeout=120)
            return argv, rr

        t0 = time.time()
        with ThreadPoolExecutor(max_workers=10) as ex:
            runs = list(ex.map(do, jobs))
        log("C13: %d runs in %.1fs" % (len(runs), time.time() - t0))
        samples = []
        nontriv = 0
        for (si, t), (argv, rr) in zip(jobs, runs):
            rec = {"kind": "c13", "set": si, "options": t, "argv": argv, "files": sets[si][1]}
            if t[0] != "none" and t[2] != "none":
                nontriv += 1
            if rr.crashed or rr.rc != 0:
                rep.violation("crash", "rc=%s %r" % (rr.rc, rr.err[-200:]), rec)
                continue
            got = SGR.sub(b"", rr.out)
            if t[6] == "never" and got != rr.out:
                rep.violation("colour-with-never", "escape sequences printed with --color never", rec)
            want = expected(si, t)
            if got != want:
                i = first_diff(got, want)
                # which kind of message does the first difference fall in?
                ctx = got[max(0, i - 40):i + 60]
                kind = "record" if b"ut_type" in ctx or b"ut_pid" in want[max(0, i - 10):i + 120] else "other"
                sig = "field-order:record" if (kind == "record" and t[0] != "none" and t[2] != "none" and t[6] == "never") else "decoration:%s" % kind
                rec.update({"got": got[max(0, i - 60):i + 100].decode(errors="replace"), "want": want[max(0, i - 60):i + 100].decode(errors="replace")})
                rep.violation(sig, "options %s: decorated stdout differs from Tokens at byte %d" % (t, i), rec)
            elif len(samples) < 3 and t[0] != "none" and t[2] != "none" and t[5] != "empty":
                samples.append({"options": t, "argv": argv, "first_line": got.split(b"\n")[0].decode(errors="replace")})
        rep.coverage = {"states": r.distinct, "transitions": r.generated, "traces_validated_against_impl": len(refs),
                        "evaluations": len(runs), "distinct_nontrivial": nontriv,
                        "rule": "one evaluation = one option tuple of Decor.tla run on one of two source sets (text multi-line + wide "
                                "name + accounting records + event log; journal + text); non-trivial = both file and datetime fields on",
                        "samples": samples, "option_tuples": len(tuples), "exhaustive": tier == "thorough", "checker_cmd": r.cmd}
        rep.assumptions = ["colour is checked as 'SGR sequences only': the colours themselves are random per file",
                           "-l runs with TZ=UTC", "three strftime formats rendered by an independent implementation",
                           "the stray NUL after an accounting record (C08 finding) carries no fields"]
    return rep.finish()
