"""Shared machinery of the /verif checks: build, run, TLC, evidence, violations, known findings."""
import fcntl
import hashlib
import json
import os
import re
import shutil
import subprocess
import sys
import time

VERIF = os.path.dirname(os.path.dirname(os.path.abspath(__file__)))
REPO = os.environ.get("VERIF_REPO", "/repo")
TARGET = os.path.join(VERIF, "target")
SPEC = os.path.join(VERIF, "spec")
GUARD = "s4_verif"
RUSTFLAGS = "--cfg s4_verif --check-cfg cfg(s4_verif)"
S4_BIN = os.path.join(TARGET, "s4", "release", "s4")
HARNESS_DIR = os.path.join(VERIF, "harness")
HARNESS_BIN_DIR = os.path.join(HARNESS_DIR, "target", "release")
TLC_JAR = "/opt/veriftools/tla/tla2tools.jar"

EXIT_OK, EXIT_VIOLATION, EXIT_TOOL = 0, 1, 2


class ToolError(Exception):
    """Something in the machinery (not the property) failed: exit 2."""


def log(*a):
    print(*a, file=sys.stderr, flush=True)


# --------------------------------------------------------------------------------------------
# scratch


class Scratch:
    """Private scratch directory under /verif/scratch/<pid>-<tag>, removed on exit."""

    def __init__(self, tag):
        self.path = os.path.join(VERIF, "scratch", "%d-%s" % (os.getpid(), tag))

    def __enter__(self):
        shutil.rmtree(self.path, ignore_errors=True)
        os.makedirs(self.path)
        return self.path

    def __exit__(self, *exc):
        if not os.environ.get("VERIF_KEEP_SCRATCH"):
            shutil.rmtree(self.path, ignore_errors=True)
        return False


# --------------------------------------------------------------------------------------------
# builds (serialised with a file lock so that concurrent checks do not fight over cargo)


def _cargo_env():
    env = dict(os.environ)
    env["CARGO_NET_OFFLINE"] = "true"
    env["RUSTFLAGS"] = RUSTFLAGS
    env.pop("CARGO_TARGET_DIR", None)
    return env


class _Lock:
    def __init__(self, name):
        os.makedirs(TARGET, exist_ok=True)
        self.path = os.path.join(TARGET, name)

    def __enter__(self):
        self.f = open(self.path, "w")
        fcntl.flock(self.f, fcntl.LOCK_EX)

    def __exit__(self, *exc):
        fcntl.flock(self.f, fcntl.LOCK_UN)
        self.f.close()


def build_s4():
    """Build the hooked release binary from /repo's current working tree."""
    t0 = time.time()
    env = _cargo_env()
    env["CARGO_TARGET_DIR"] = os.path.join(TARGET, "s4")
    cmd = ["cargo", "build", "--offline", "--release", "--bin", "s4",
           "--config", "profile.release.lto=false", "--config", "profile.release.codegen-units=16"]
    with _Lock("build_s4.lock"):
        p = subprocess.run(cmd, cwd=REPO, env=env, stdout=subprocess.PIPE, stderr=subprocess.STDOUT, text=True)
    if p.returncode != 0 or not os.path.exists(S4_BIN):
        log(p.stdout[-6000:])
        raise ToolError("cargo build of hooked s4 failed")
    return S4_BIN, time.time() - t0


def build_harness(bins=None):
    """Build the in-process harness crate (path dependency on /repo)."""
    t0 = time.time()
    lock_src = os.path.join(REPO, "Cargo.lock")
    lock_dst = os.path.join(HARNESS_DIR, "Cargo.lock")
    if not os.path.exists(lock_dst):
        shutil.copyfile(lock_src, lock_dst)
    env = _cargo_env()
    env.pop("RUSTFLAGS", None)  # harness/.cargo/config.toml sets rustflags
    cmd = ["cargo", "build", "--offline", "--release"]
    for b in bins or []:
        cmd += ["--bin", b]
    with _Lock("build_harness.lock"):
        p = subprocess.run(cmd, cwd=HARNESS_DIR, env=env, stdout=subprocess.PIPE, stderr=subprocess.STDOUT, text=True)
        if p.returncode != 0 and "Cargo.lock" in p.stdout:
            # lock file out of date for the harness: regenerate from the repo's
            shutil.copyfile(lock_src, lock_dst)
            p = subprocess.run(cmd, cwd=HARNESS_DIR, env=env, stdout=subprocess.PIPE, stderr=subprocess.STDOUT, text=True)
    if p.returncode != 0:
        log(p.stdout[-6000:])
        raise ToolError("cargo build of harness failed")
    return time.time() - t0


def harness_bin(name):
    p = os.path.join(HARNESS_BIN_DIR, name)
    if not os.path.exists(p):
        raise ToolError("harness binary missing: " + p)
    return p


# --------------------------------------------------------------------------------------------
# running s4


class Run:
    def __init__(self, rc, out, err, wall, trace, timed_out):
        self.rc, self.out, self.err, self.wall, self.trace, self.timed_out = rc, out, err, wall, trace, timed_out

    @property
    def crashed(self):
        """panic / abort / fatal signal"""
        return self.timed_out or self.rc < 0 or self.rc not in (0, 1) or b"panicked at" in self.err


def run_s4(args, cwd=None, env=None, timeout=60, trace=False, plan=None, stdin=None, tz_args=True, tmpdir=None):
    """Run the hooked binary.  Returns Run.  `trace=True` collects the NDJSON events."""
    e = {"PATH": os.environ.get("PATH", "/usr/bin:/bin"), "TZ": "UTC", "HOME": os.environ.get("HOME", "/root")}
    if env:
        e.update(env)
    trace_path = None
    base = cwd or os.getcwd()
    if trace:
        trace_path = os.path.join(base, "trace-%d-%d.ndjson" % (os.getpid(), int(time.time() * 1e6) % 10**9))
        e["S4_VERIF_TRACE"] = trace_path
    if plan is not None:
        plan_path = os.path.join(base, "plan-%d-%d.txt" % (os.getpid(), int(time.time() * 1e6) % 10**9))
        with open(plan_path, "w") as f:
            for t, p in plan:
                f.write("%s %s\n" % (t, p))
        e["S4_VERIF_PLAN"] = plan_path
    if tmpdir:
        e["TMPDIR"] = tmpdir
    argv = [S4_BIN] + (["-t", "+00:00"] if tz_args else []) + list(args)
    t0 = time.time()
    timed_out = False
    try:
        p = subprocess.run(argv, cwd=cwd, env=e, input=stdin, stdout=subprocess.PIPE, stderr=subprocess.PIPE,
                           timeout=timeout)
        rc, out, err = p.returncode, p.stdout, p.stderr
    except subprocess.TimeoutExpired as ex:
        timed_out = True
        rc, out, err = -9, ex.stdout or b"", ex.stderr or b""
    wall = time.time() - t0
    events = []
    if trace_path and os.path.exists(trace_path):
        with open(trace_path) as f:
            for line in f:
                line = line.strip()
                if line:
                    try:
                        events.append(json.loads(line))
                    except ValueError:
                        pass
        os.remove(trace_path)
    if plan is not None:
        try:
            os.remove(e["S4_VERIF_PLAN"])
        except OSError:
            pass
    return Run(rc, out, err, wall, events, timed_out)


# --------------------------------------------------------------------------------------------
# TLC


_RE_STATES = re.compile(r"(\d+) states generated, (\d+) distinct states found, (\d+) states left on queue")
_RE_SIM = re.compile(r"(\d+) states checked")
_RE_DEPTH = re.compile(r"The depth of the complete state graph search is (\d+)")


class TlcResult:
    def __init__(self):
        self.ok = False
        self.generated = 0
        self.distinct = 0
        self.depth = 0
        self.violated = None  # name of violated invariant/property
        self.output = ""
        self.wall = 0.0
        self.prints = []  # lines produced by PrintT / Print
        self.coverage = {}  # action -> count (when -coverage)
        self.timed_out = False
        self.cmd = ""


def tlc(module, cfg, workdir, workers=8, timeout=900, env=None, simulate=None, depth=None, coverage=False,
        java_opts=None, deque=False, seed=None, extra=None, spec_dir=SPEC):
    """Run TLC on spec_dir/module.tla with cfg (path).  Never raises on a property violation."""
    os.makedirs(workdir, exist_ok=True)
    meta = os.path.join(workdir, "meta-%s-%d" % (module, int(time.time() * 1e6) % 10**9))
    e = dict(os.environ)
    jto = "-Xss1g"
    if deque:
        jto += " -Dtlc2.tool.queue.IStateQueue=StateDeque"
    if java_opts:
        jto += " " + java_opts
    e["JAVA_TOOL_OPTIONS"] = jto
    if env:
        e.update({k: str(v) for k, v in env.items()})
    cmd = ["timeout", str(int(timeout)), "tlc", "-workers", str(workers), "-metadir", meta, "-cleanup",
           "-noGenerateSpecTE", "-config", cfg]
    if simulate is not None:
        cmd += ["-simulate", "num=%d" % simulate]
    if depth is not None:
        cmd += ["-depth", str(depth)]
    if coverage:
        cmd += ["-coverage", "1"]
    if seed is not None:
        cmd += ["-seed", str(seed)]
    if extra:
        cmd += extra
    cmd += [module + ".tla"]
    r = TlcResult()
    r.cmd = " ".join(cmd)
    t0 = time.time()
    p = subprocess.run(cmd, cwd=spec_dir, env=e, stdout=subprocess.PIPE, stderr=subprocess.STDOUT, text=True)
    r.wall = time.time() - t0
    shutil.rmtree(meta, ignore_errors=True)
    r.output = p.stdout
    r.timed_out = p.returncode == 124
    for m in _RE_STATES.finditer(p.stdout):
        r.generated, r.distinct = int(m.group(1)), int(m.group(2))
    if simulate is not None:
        m = None
        for m in _RE_SIM.finditer(p.stdout):
            pass
        if m:
            r.generated = r.distinct = int(m.group(1))
    m = _RE_DEPTH.search(p.stdout)
    if m:
        r.depth = int(m.group(1))
    m = re.search(r"Error: Invariant (\S+) is violated", p.stdout)
    if m:
        r.violated = m.group(1)
    m2 = re.search(r"Error: Action property (\S+) is violated|Error: Temporal properties were violated", p.stdout)
    if m2 and not r.violated:
        r.violated = m2.group(1) or "temporal"
    if re.search(r"Error: Deadlock reached", p.stdout) and not r.violated:
        r.violated = "deadlock"
    if re.search(r"Error: Postcondition \S+ .*is false", p.stdout):
        r.violated = r.violated or "postcondition"
    r.prints = [ln for ln in p.stdout.splitlines() if ln.startswith("<<") or ln.startswith('"')]
    if coverage:
        for m in re.finditer(r"^<(\w+) line \d+, col \d+ to line \d+, col \d+ of module (\w+)>: (\d+):(\d+)", p.stdout, re.M):
            r.coverage[m.group(1)] = r.coverage.get(m.group(1), 0) + int(m.group(4))
    finished = ("Model checking completed. No error has been found." in p.stdout) or \
               (simulate is not None and p.returncode in (0,) and "Error:" not in p.stdout)
    r.ok = finished and r.violated is None
    if not r.ok and r.violated is None and not r.timed_out:
        # parse / semantic / evaluation error: a tool error
        r.violated = None
    return r


def tlc_must_pass(r, what):
    if r.timed_out:
        raise ToolError("TLC timed out: " + what)
    if not r.ok and r.violated is None:
        log(r.output[-5000:])
        raise ToolError("TLC failed (not a property verdict): " + what)


def sany(module, spec_dir=SPEC):
    p = subprocess.run(["tla-sany", module + ".tla"], cwd=spec_dir, stdout=subprocess.PIPE, stderr=subprocess.STDOUT,
                       text=True)
    return p.returncode == 0 and "Semantic errors" not in p.stdout and "***Parse Error***" not in p.stdout, p.stdout


def write_cfg(path, constants, spec="Spec", invariants=(), properties=(), constraint=None, postcondition=None,
              init=None, next_=None, view=None, extra=()):
    lines = []
    if constants:
        lines.append("CONSTANTS")
        for k, v in constants.items():
            lines.append("  %s = %s" % (k, tla_value(v)))
    if init and next_:
        lines.append("INIT %s" % init)
        lines.append("NEXT %s" % next_)
    else:
        lines.append("SPECIFICATION %s" % spec)
    if invariants:
        lines.append("INVARIANTS " + " ".join(invariants))
    if properties:
        lines.append("PROPERTIES " + " ".join(properties))
    if constraint:
        lines.append("CONSTRAINT " + constraint)
    if postcondition:
        lines.append("POSTCONDITION " + postcondition)
    if view:
        lines.append("VIEW " + view)
    lines.append("CHECK_DEADLOCK FALSE")
    lines += list(extra)
    os.makedirs(os.path.dirname(path), exist_ok=True)
    with open(path, "w") as f:
        f.write("\n".join(lines) + "\n")
    return path


def tla_value(v):
    if isinstance(v, bool):
        return "TRUE" if v else "FALSE"
    if isinstance(v, int):
        return str(v)
    if isinstance(v, str):
        return '"%s"' % v
    if isinstance(v, (set, frozenset)):
        return "{" + ", ".join(tla_value(x) for x in sorted(v, key=lambda x: (str(type(x)), x))) + "}"
    if isinstance(v, (list, tuple)):
        return "<<" + ", ".join(tla_value(x) for x in v) + ">>"
    if isinstance(v, Raw):
        return v.s
    raise ValueError(v)


class Raw:
    def __init__(self, s):
        self.s = s


# --------------------------------------------------------------------------------------------
# constants of the model extracted from the build (DESIGN 4.4)


def scan_const(relpath, regex, conv=int):
    """Read a private constant from the source with an anchored regex; missing anchor = tool error."""
    path = os.path.join(REPO, relpath)
    try:
        text = open(path, encoding="utf-8", errors="replace").read()
    except OSError as ex:
        raise ToolError("cannot read %s: %s" % (path, ex))
    m = re.search(regex, text, re.M)
    if not m:
        raise ToolError("anchor for model constant not found in %s: %s" % (relpath, regex))
    return conv(m.group(1))


def channel_capacity():
    try:
        cap = scan_const("src/bin/s4.rs", r"CHANNEL_CAPACITY\s*:\s*usize\s*=\s*(\d+)\s*;")
    except ToolError as ex:
        # the channels' capacity could not be read off the source: the model runs with the documented value; its
        # statements are bound to the code by traces and replays, so a different real value shows up as DRIFT
        print("NOTE design-parameter scan: %s; CAP taken as 5" % ex, file=sys.stderr, flush=True)
        return 5
    return cap


# --------------------------------------------------------------------------------------------
# evidence, violations, known findings


def known_findings():
    path = os.path.join(VERIF, "KNOWN_FINDINGS.json")
    if not os.path.exists(path):
        return []
    return json.load(open(path)).get("findings", [])


class Reporter:
    """Collects violations for one property run; applies the known-findings file; writes evidence."""

    def __init__(self, pid, tier, seed, level):
        self.pid, self.tier, self.seed, self.level = pid, tier, seed, level
        self.t0 = time.time()
        self.violations = []  # (signature, replay_path, summary)
        self.known_hits = {}  # signature -> count
        self.coverage = {}
        self.assumptions = []
        self.drift = []
        self._known = [k for k in known_findings() if k.get("property") == pid and k.get("status") == "known"]
        self._printed_known = set()

    def violation(self, signature, summary, replay):
        """signature: short stable string identifying the failing input class / call site / schedule."""
        for k in self._known:
            if signature == k["signature"] or re.fullmatch(k["signature"], signature):
                self.known_hits[k["signature"]] = self.known_hits.get(k["signature"], 0) + 1
                if k["signature"] not in self._printed_known:
                    self._printed_known.add(k["signature"])
                    print("KNOWN-FINDING: property=%s %s [%s]" % (self.pid, k["what"], k["signature"]), flush=True)
                return False
        rdir = os.path.join(VERIF, "replays", self.pid)
        os.makedirs(rdir, exist_ok=True)
        body = dict(replay)
        body.update({"property": self.pid, "signature": signature, "summary": summary})
        blob = json.dumps(body, sort_keys=True, default=_json_default)
        h = hashlib.sha1(blob.encode()).hexdigest()[:12]
        path = os.path.join(rdir, h + ".json")
        with open(path, "w") as f:
            f.write(blob)
        if len(self.violations) < 20:
            print("VIOLATION property=%s replay=%s" % (self.pid, path), flush=True)
            log("  " + summary[:600])
        self.violations.append((signature, path, summary))
        return True

    def note(self, what):
        """something the run could not do (recorded in the evidence; neither a violation nor a drift)"""
        log("NOTE: " + what)
        self.assumptions.append("NOTE: " + what)

    def note_drift(self, what):
        print("DRIFT property=%s %s" % (self.pid, what), flush=True)
        self.drift.append(what)

    def finish(self):
        cov = dict(self.coverage)
        cov.setdefault("known_findings_hit", self.known_hits)
        if self.drift:
            cov["model_conformant"] = False
            cov["drift"] = self.drift[:10]
        ev = {
            "property_id": self.pid,
            "tier": self.tier,
            "seed": int(self.seed),
            "level": self.level,
            "coverage": cov,
            "assumptions": self.assumptions,
            "wall_s": round(time.time() - self.t0, 2),
            "violations": len(self.violations),
        }
        os.makedirs(os.path.join(VERIF, "evidence"), exist_ok=True)
        with open(os.path.join(VERIF, "evidence", self.pid + ".json"), "w") as f:
            json.dump(ev, f, indent=1, default=_json_default)
            f.write("\n")
        return EXIT_VIOLATION if self.violations else EXIT_OK


def _json_default(o):
    if isinstance(o, bytes):
        return {"hex": o.hex()}
    if isinstance(o, (set, frozenset)):
        return sorted(o)
    return str(o)


def b2j(b):
    """bytes -> JSON-able (latin-1 text when printable, else hex)"""
    try:
        s = b.decode("ascii")
        if all(32 <= ord(c) < 127 or c in "\n\t" for c in s):
            return s
    except UnicodeDecodeError:
        pass
    return {"hex": b.hex()}


def j2b(j):
    if isinstance(j, str):
        return j.encode("ascii")
    return bytes.fromhex(j["hex"])


# --------------------------------------------------------------------------------------------
# parsing values printed by TLC (PrintT of tuples of strings / numbers / booleans / nested tuples / sets)


def parse_tla(text, pos=0):
    """Parse one TLA+ value starting at text[pos]; returns (value, next_pos).  Tuples -> list, sets -> list."""
    n = len(text)
    while pos < n and text[pos] in " \n\t,":
        pos += 1
    if text.startswith("<<", pos):
        pos += 2
        out = []
        while True:
            while pos < n and text[pos] in " \n\t,":
                pos += 1
            if text.startswith(">>", pos):
                return out, pos + 2
            v, pos = parse_tla(text, pos)
            out.append(v)
    if text[pos] == "{":
        pos += 1
        out = []
        while True:
            while pos < n and text[pos] in " \n\t,":
                pos += 1
            if text[pos] == "}":
                return out, pos + 1
            v, pos = parse_tla(text, pos)
            out.append(v)
    if text[pos] == '"':
        j = pos + 1
        buf = []
        while text[j] != '"':
            if text[j] == "\\":
                j += 1
            buf.append(text[j])
            j += 1
        return "".join(buf), j + 1
    if text.startswith("TRUE", pos):
        return True, pos + 4
    if text.startswith("FALSE", pos):
        return False, pos + 5
    if text[pos] == "[":
        # record [a |-> v, ...]
        pos += 1
        rec = {}
        while True:
            while pos < n and text[pos] in " \n\t,":
                pos += 1
            if text[pos] == "]":
                return rec, pos + 1
            j = pos
            while text[j] not in " |":
                j += 1
            key = text[pos:j]
            pos = text.index("|->", j) + 3
            v, pos = parse_tla(text, pos)
            rec[key] = v
    j = pos
    if text[j] == "-":
        j += 1
    while j < n and text[j].isdigit():
        j += 1
    if j < n and text.startswith("..", j):
        k = j + 2
        while k < n and text[k].isdigit():
            k += 1
        return list(range(int(text[pos:j]), int(text[j + 2:k]) + 1)), k
    return int(text[pos:j]), j


def tla_prints(output, tag):
    """All values printed as <<"tag", ...>> (possibly spanning lines) in TLC output."""
    out = []
    for m in re.finditer(r'<<\s*"%s"' % re.escape(tag), output):
        v, _ = parse_tla(output, m.start())
        out.append(v)
    return out
