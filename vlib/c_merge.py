"""C01 (merged output chronological, deterministic tie rule) and C06 (output independent of scheduling,
the run always ends): TLC on S4Run.tla with constants from the build; generated source sets executed under
seeded / held / TLC-planned schedules; stdout against the stable merge of the generator's ground truth;
hook traces validated against TraceS4Run.tla."""
import os
import shutil
import random
import time
from concurrent.futures import ThreadPoolExecutor

from . import common, gen, runmodel
from .common import Reporter, Scratch, ToolError, log
from .e2e import Case, first_diff

OFFSETS = [0, 90, -300, 345, 0, 60]
KINDS = ["log", "log.gz", "log.bz2", "log.xz", "tar", "log"]


def make_source_set(rng, n, max_msgs, allow_unsorted=False, force_many=False):
    """Returns (files, argv, sources[[Msg]], meta)"""
    files, argv, sources, meta = {}, [], [], []
    grid_secs = rng.choice([2, 3, 5])
    for w in range(n):
        letter = chr(ord("A") + w)
        k = rng.choice([0, 1, 2, 3, max_msgs, max_msgs]) if not force_many else rng.randint(6, max_msgs + 6)
        k = min(k, max_msgs + 6)
        # 0..9 fractional digits (each source its own width: .NET writes 7, Java 3, syslog-ng 6, journald-derived 9 ...)
        frac = rng.choice([3, 6, 9, 9, 0, 1, 2, 4, 5, 7, 7, 8])
        # near-equal instants: differences of 1 ns, < 1 us, 1 us, 1 ms and whole seconds, as far as the
        # number of fractional digits written allows
        unit = 10 ** (9 - frac)
        nano_choices = sorted({(x // unit) * unit for x in (0, 0, 1, 100, 900, 999, 1_000, 1_001, 2_000, 1_000_000, 123_456_789, 150_000_000,
                                                           300_000_000, 500_000_000, 999_000_000, 999_999_000, 999_999_999)}) + [0]
        inst = []
        for _ in range(k):
            sec = gen.BASE + rng.randrange(grid_secs)
            inst.append((sec, rng.choice(nano_choices)))
        unsorted_src = allow_unsorted and rng.random() < 0.15
        if not unsorted_src:
            inst.sort()
        off = rng.choice(OFFSETS)
        final_nl = rng.random() < 0.8
        cont = None
        if rng.random() < 0.3:
            cont = lambda i, letter=letter: [("  cont src=%s idx=%d" % (letter, i)).encode()] * (i % 3)
        blob, msgs = gen.text_source(letter, inst, offset_min=off, frac=frac, pad=rng.choice([0, 0, 40, 300]),
                                     cont=cont, final_newline=final_nl)
        if not final_nl and msgs:
            msgs[-1].data += b"\n"  # s4 supplies the missing final newline
        kind = rng.choice(KINDS)
        if k == 0:
            # a source with a worker but no messages: lines without any timestamp
            blob = (b"no timestamp here %s\n" % letter.encode()) * 8
            msgs = []
            kind = "log"
        name = "s%d_%s.%s" % (w, letter, kind if kind != "tar" else "tar")
        if kind == "log":
            files[name] = blob
            argv.append(name)
        elif kind == "log.gz":
            files[name] = gen.gz_bytes(blob, level=rng.choice([1, 6, 9]))
            argv.append(name)
        elif kind == "log.bz2":
            files[name] = gen.bz2_bytes(blob)
            argv.append(name)
        elif kind == "log.xz":
            files[name] = gen.xz_bytes(blob)
            argv.append(name)
        else:
            files[name] = gen.tar_bytes([("m_%s.log" % letter, blob)])
            argv.append(name)
        sources.append(msgs)
        meta.append({"name": name, "kind": kind, "msgs": len(msgs), "offset_min": off, "frac": frac,
                     "unsorted": unsorted_src})
    return files, argv, sources, meta


def schedules(rng, n, sources, plans, tier):
    """List of (label, env, plan)."""
    out = [("free", {}, None)]
    nseeds = 3 if tier == "quick" else 8
    for _ in range(nseeds):
        out.append(("seeded", {"S4_VERIF_SEED": str(rng.randrange(1 << 30)),
                               "S4_VERIF_DELAY_US": str(rng.choice([100, 400, 1500]))}, None))
    # starve one source at a chosen send: FileInfo, first message, a middle message, the summary
    holds = []
    for w in range(n):
        nm = len(sources[w])
        for k in sorted({0, 1, max(1, nm // 2), nm + 1}):
            holds.append("w%d:SendStart:%d:%d" % (w, k, rng.choice([40, 90])))
    rng.shuffle(holds)
    for h in holds[: (3 if tier == "quick" else 10)]:
        out.append(("hold", {"S4_VERIF_HOLD": h}, None))
    # hold the printing thread so that channels fill up
    out.append(("hold-main", {"S4_VERIF_HOLD": "main:Recv:%d:60,main:Print:%d:60" % (rng.randrange(3), rng.randrange(2))},
                None))
    for p in plans:
        out.append(("tlc-plan", {"S4_VERIF_PLAN_TIMEOUT_MS": "250"}, p))
    return out


def tlc_part(pid, tier, sc, rep):
    # (properties that assume every write succeeds are not asked of the EPIPE config: see S4Run.AllPrintedAtEnd)
    """Exhaustive model checking with the channel capacity read from the code."""
    cap = common.channel_capacity()
    invs = ["AllPrintedAtEnd", "NoneUnreachable", "RetMeaning", "PendingLive", "ChanBound"]
    props = ["PrintIsEarliest", "Terminates", "Exits"]
    if tier == "quick":
        cfgs = [("n2m2", runmodel.s4run_constants(2, 2, {1, 2}), 300),
                ("n3m1", runmodel.s4run_constants(3, 1, {1, 2}), 300)]
        c1 = runmodel.s4run_constants(2, 2, {1, 2})
        c1["CAP"] = 1
        cfgs.append(("n2m2cap1", c1, 300))
    else:
        cfgs = [("n2m3", runmodel.s4run_constants(2, 3, {1, 2, 3}), 1500),
                ("n3m2", runmodel.s4run_constants(3, 2, {1, 2}), 1500),
                ("n3m1d3", runmodel.s4run_constants(3, 1, {1, 2, 3}), 900)]
        for capx in (1, 2):
            c = runmodel.s4run_constants(2, 3, {1, 2})
            c["CAP"] = capx
            cfgs.append(("n2m3cap%d" % capx, c, 900))
        c = runmodel.s4run_constants(2, cap + 1, {1})
        cfgs.append(("n2full", c, 900))
    if pid == "C06":
        # the print-error path (closed pipe): the run must still end
        ce = runmodel.s4run_constants(2, 2, {1, 2})
        ce["EPIPE"] = True
        cfgs.append(("epipe", ce, 600))
    states = trans = 0
    details = []
    for name, consts, to in cfgs:
        if name == "epipe":
            # with failing writes only termination and the channel discipline are claimed
            r = runmodel.model_check(os.path.join(sc, "tlc"), name, consts, ["PendingLive", "ChanBound"], ["Terminates", "Exits"],
                                     workers=10, timeout=to)
        else:
            r = runmodel.model_check(os.path.join(sc, "tlc"), name, consts, invs, props, workers=10, timeout=to,
                                     coverage=(name == cfgs[0][0]))
        if r.violated:
            rep.violation("model:%s:%s" % (name, r.violated),
                          "S4Run.tla with constants from the build violates %s in config %s" % (r.violated, name),
                          {"kind": "tlc", "config": consts, "cmd": r.cmd, "output_tail": r.output[-3000:]})
        else:
            common.tlc_must_pass(r, name)
        states += r.distinct
        trans += r.generated
        det = {"config": name, "constants": {k: (sorted(v) if isinstance(v, set) else v) for k, v in consts.items()},
               "distinct": r.distinct, "generated": r.generated, "depth": r.depth, "wall_s": round(r.wall, 1),
               "result": "ok" if r.ok else str(r.violated)}
        if name == cfgs[0][0]:
            # vacuity report (-coverage 1): how often each action of the specification was taken in this configuration
            import re as _re
            acts = _re.findall(r"<(\w+) line \d+, col \d+ to line \d+, col \d+ of module S4Run>: (\d+):(\d+)", r.output)
            det["action_counts"] = {a: int(n2) for a, n1, n2 in acts}
            det["actions_never_taken"] = sorted(a for a, n1, n2 in acts if int(n2) == 0)
        details.append(det)
    return states, trans, details


def run(pid, tier, seed):
    rep = Reporter(pid, tier, seed, "model_checking")
    rng = random.Random(seed * 7919 + (1 if pid == "C01" else 6))
    common.build_s4()
    with Scratch(pid) as sc:
        states, trans, details = tlc_part(pid, tier, sc, rep)

        nsets = 10 if tier == "quick" else 60
        results = []  # (case, label, run, sources, meta)
        jobs = []
        sets = []
        for si in range(nsets):
            n = rng.choice([1, 2, 2, 3, 3, 4, 5]) if tier == "quick" else rng.choice([1, 2, 3, 4, 5, 6, 8])
            files, argv, sources, meta = make_source_set(rng, n, max_msgs=rng.choice([3, 5, 8]),
                                                         allow_unsorted=False, force_many=(si % 5 == 4))
            expected = b"".join(m.data for m in gen.expected_merge(sources))
            ranks = runmodel.rank_table([m.key for s in sources for m in s])
            dts = [[ranks[m.key] for m in s] for s in sources]
            plans = []
            if n <= 4 and sum(len(s) for s in sources) <= 24 and si % 2 == 0:
                plans, _ = runmodel.simulate_plans(os.path.join(sc, "sim"), dts, num=2 if tier == "quick" else 5,
                                                   seed=rng.randrange(1 << 20))
            sets.append((files, argv, sources, meta, expected, ranks, dts))
            for label, env, plan in schedules(rng, n, sources, plans, tier):
                jobs.append((si, label, env, plan))
            # (and as the program runs when nobody watches: no event sink, no holds)
            for _ in range(2 if tier == "quick" else 6):
                jobs.append((si, "free-untraced", {"_notrace": True}, None))
            # argument permutation: PathId order follows the command line
            if n >= 2 and si % 3 == 0:
                perm = list(range(n))
                rng.shuffle(perm)
                jobs.append((si, "perm", {"_perm": perm}, None))

        # tie-heavy sets: every message of every source shares its instant with a message of every other source, more
        # messages than a channel holds; the earlier-named source is starved at several of its sends (its channel runs
        # empty while the others fill up and block) and vice versa: the tie rule must not look at anything but the order
        # of the sources
        for ti in range(2 if tier == "quick" else 8):
            n = 2 + ti % 2
            nm = rng.choice([12, 20, 30])
            insts = [(gen.BASE + 3 * i, 0) for i in range(nm)]
            files, argv, sources, meta = {}, [], [], []
            for w in range(n):
                letter = "TUV"[w]
                cont = (lambda i, letter=letter: [("  cont src=%s idx=%d" % (letter, i)).encode()] * 3) if w == 0 and ti % 2 == 0 else None
                blob, msgs = gen.text_source(letter, insts, offset_min=rng.choice(OFFSETS), frac=rng.choice([0, 3, 6]), pad=rng.choice([0, 200]), cont=cont)
                files["t%d_%s.log" % (w, letter)] = blob
                argv.append("t%d_%s.log" % (w, letter))
                sources.append(msgs)
                meta.append({"name": argv[-1], "kind": "log", "msgs": nm, "ties": "all"})
            expected = b"".join(m.data for m in gen.expected_merge(sources))
            ranks = runmodel.rank_table([m.key for s_ in sources for m in s_])
            dts = [[ranks[m.key] for m in s_] for s_ in sources]
            sets.append((files, argv, sources, meta, expected, ranks, dts))
            si = len(sets) - 1
            jobs.append((si, "free", {}, None))
            for w in range(n):
                holds = ",".join("w%d:SendStart:%d:%d" % (w, k, 70) for k in (2, 9, nm // 2, nm - 1))
                jobs.append((si, "hold", {"S4_VERIF_HOLD": holds}, None))
            jobs.append((si, "seeded", {"S4_VERIF_SEED": str(rng.randrange(1 << 30)), "S4_VERIF_DELAY_US": "1500"}, None))
            # with colour the escape sequences are output too: whichever worker gets going first, the bytes are the same
            jobs.append((si, "colour", {"_colour": True}, None))
            for w in range(n):
                jobs.append((si, "colour", {"_colour": True, "S4_VERIF_HOLD": "w%d:WStart:0:90" % w}, None))

        # a source with nothing to print (all of it lies before the window) beside sources that do print, in every position:
        # it reports in, sums up and is gone -- possibly before another source has reported in at all (each of the others
        # held back at its start, and at the sending of its first datum, in turn)
        for ni in range(3 if tier == "quick" else 9):
            n = 2 + ni % 2
            quiet = ni % n
            files, argv, sources, meta = {}, [], [], []
            for w in range(n):
                letter = "QRS"[w]
                t0_ = gen.BASE - 400 * 86400 if w == quiet else gen.BASE
                blob, msgs = gen.text_source(letter, [(t0_ + 2 * i + w, 0) for i in range(rng.choice([4, 9, 14]))], offset_min=0, frac=0, pad=rng.choice([0, 60]))
                files["n%d_%s.log" % (w, letter)] = blob
                argv.append("n%d_%s.log" % (w, letter))
                sources.append([] if w == quiet else msgs)
                meta.append({"name": argv[-1], "kind": "log", "msgs": len(msgs), "in_window": w != quiet})
            expected = b"".join(m.data for m in gen.expected_merge(sources))
            ranks = runmodel.rank_table([m.key for s_ in sources for m in s_])
            dts = [[ranks[m.key] for m in s_] for s_ in sources]
            sets.append((files, argv, sources, meta, expected, ranks, dts))
            si = len(sets) - 1
            pre = ["-a", gen.fmt_ts(gen.BASE - 86400, 0, 0, 0)]
            jobs.append((si, "quiet-free", {"_pre": pre}, None))
            for w in range(n):
                if w != quiet:
                    jobs.append((si, "quiet-hold-start", {"_pre": pre, "S4_VERIF_HOLD": "w%d:WStart:0:250" % w}, None))
                    jobs.append((si, "quiet-hold-fileinfo", {"_pre": pre, "S4_VERIF_HOLD": "w%d:SendStart:0:250" % w}, None))
            jobs.append((si, "quiet-hold-all-others", {"_pre": pre, "S4_VERIF_HOLD": ",".join("w%d:WStart:0:%d" % (w, 200 + 60 * w) for w in range(n) if w != quiet)}, None))

        # messages larger than the printer's buffer (2056 bytes), made of many lines or of one long line, between the short
        # messages of another source: each is on stdout whole before the next one starts
        for li in range(2 if tier == "quick" else 6):
            files, argv, sources, meta = {}, [], [], []
            kinds_ = [("many-lines", lambda i: [b"    at frame %02d of message %d %s" % (q, i, b"f" * 60) for q in range(30)], 0),
                      ("one-long-line", None, 2300 + 400 * li)]
            ka = kinds_[li % 2]
            blob_a, ma = gen.text_source("LONG", [(gen.BASE + 50 + 6 * i, 0) for i in range(9)], frac=0, pad=ka[2], cont=ka[1])
            blob_b, mb = gen.text_source("TINY", [(gen.BASE + 50 + 2 * i + 1, 0) for i in range(27)], frac=0)
            order = [("la.log", blob_a, ma), ("lb.log", blob_b, mb)]
            if li % 4 >= 2:
                order.reverse()
            for nm_, blob_, ms_ in order:
                files[nm_] = blob_
                argv.append(nm_)
                sources.append(ms_)
                meta.append({"name": nm_, "kind": "log", "msgs": len(ms_), "shape": ka[0]})
            expected = b"".join(m.data for m in gen.expected_merge(sources))
            ranks = runmodel.rank_table([m.key for s_ in sources for m in s_])
            dts = [[ranks[m.key] for m in s_] for s_ in sources]
            sets.append((files, argv, sources, meta, expected, ranks, dts))
            si = len(sets) - 1
            jobs.append((si, "long-messages-free", {}, None))
            jobs.append((si, "long-messages-untraced", {"_notrace": True}, None))
            jobs.append((si, "long-messages-seeded", {"S4_VERIF_SEED": str(rng.randrange(1 << 30)), "S4_VERIF_DELAY_US": "1200"}, None))

        # a compressed source whose every fourth (sixteenth) newline is the first byte of a block, beside a plain one, at small
        # block sizes: what the reader lets go of, and when, may depend on how far the printer has got -- the bytes must not
        for ai, B_ in enumerate([256, 1024] if tier == "quick" else [128, 256, 1024, 4096]):
            insts = [(gen.BASE + 3 * q, 0) for q in range(1, 201)]
            ma, blob_a = [], b""
            for q, (s_, n_) in enumerate(insts):
                hd = gen.fmt_ts(s_, 0, 0, 0).encode() + b" src=AL idx=%d " % q
                ln = hd + b"a" * ((65 if q == 0 else 64) - len(hd) - 1) + b"\n"
                ma.append(gen.Msg("AL", q, s_, 0, ln))
                blob_a += ln
            blob_b, mb = gen.text_source("PL", [(gen.BASE + 3 * q + 1, 0) for q in range(1, 201, 2)], offset_min=0, frac=0)
            enc = [gen.gz_bytes, gen.bz2_bytes][ai % 2]
            ext = ["gz", "bz2"][ai % 2]
            files = {"al.log." + ext: enc(blob_a), "pl.log": blob_b}
            argv = ["al.log." + ext, "pl.log"]
            sources = [ma, mb]
            meta = [{"name": argv[0], "kind": "log." + ext, "msgs": 200, "newline_on_block_start_every": B_ // 64}, {"name": "pl.log", "kind": "log", "msgs": len(mb)}]
            expected = b"".join(m.data for m in gen.expected_merge(sources))
            ranks = runmodel.rank_table([m.key for s_ in sources for m in s_])
            dts = [[ranks[m.key] for m in s_] for s_ in sources]
            sets.append((files, argv, sources, meta, expected, ranks, dts))
            si = len(sets) - 1
            pre = ["--blocksz", str(B_)]
            jobs.append((si, "aligned-stream-free", {"_pre": pre}, None))
            for _ in range(4 if tier == "quick" else 12):
                jobs.append((si, "aligned-stream-untraced", {"_pre": pre, "_notrace": True}, None))
            jobs.append((si, "aligned-stream-seeded", {"_pre": pre, "S4_VERIF_SEED": str(rng.randrange(1 << 30)), "S4_VERIF_DELAY_US": "900"}, None))
            jobs.append((si, "aligned-stream-printer-held", {"_pre": pre, "S4_VERIF_HOLD": "main:Print:3:120,main:Print:40:120"}, None))

        # sources that each write their timestamps in a DIFFERENT notation (and at different places in the line): every
        # reader works out its own notation at the same moment as the others do theirs; run over and over, freely
        from . import c04
        nots = {n_[0]: n_ for n_ in c04.notations()}
        mixnames = ["rfc3339", "apache_err", "mid_line", "epoch_ms", "long_month", "compact_sp", "kv_time", "json_ts", "apache_clf", "underscore",
                    "hawkeye_level", "iso_sp_comma_nozone"]
        for mi in range(2 if tier == "quick" else 8):
            n = 3 if mi % 2 == 0 else 4
            pick = rng.sample([m_ for m_ in mixnames if m_ in nots], n)
            # (always one source whose timestamp stands far into the line: its reader passes over the notations tried on line
            #  starts while the others are still working theirs out)
            if mi == 0:
                pick = ["rfc3339", "apache_err", "mid_line"]
            elif "mid_line" not in pick:
                pick[rng.randrange(n)] = "mid_line"
            files, argv, sources, meta = {}, [], [], []
            for w, nm_ in enumerate(pick):
                _, zk, maxfd, render = nots[nm_]
                msgs, blob = [], b""
                for i in range(30):
                    sec = gen.BASE + 86400 * 40 + 7 * i + w
                    tt = time.gmtime(sec)
                    t_ = {"y": tt.tm_year, "m": tt.tm_mon, "d": tt.tm_mday, "H": tt.tm_hour, "M": tt.tm_min, "S": tt.tm_sec, "n": 0, "fd": 0, "off": 0,
                          "abbr": "UTC", "epoch": sec, "z": False}
                    line = (render(t_) + " mixed src=%s idx=%d\n" % ("WXYZ"[w], i)).encode()
                    msgs.append(gen.Msg("WXYZ"[w], i, sec, 0, line))
                    blob += line
                files["x%d_%s.log" % (w, nm_)] = blob
                argv.append("x%d_%s.log" % (w, nm_))
                sources.append(msgs)
                meta.append({"name": argv[-1], "kind": "log", "notation": nm_, "msgs": 30})
            expected = b"".join(m.data for m in gen.expected_merge(sources))
            ranks = runmodel.rank_table([m.key for s_ in sources for m in s_])
            dts = [[ranks[m.key] for m in s_] for s_ in sources]
            sets.append((files, argv, sources, meta, expected, ranks, dts))
            si = len(sets) - 1
            for rep_ in range(10 if tier == "quick" else 30):
                jobs.append((si, "mixed-notations-free", {"_notrace": rep_ > 0}, None))

        def do(job):
            ji, (si, label, env, plan) = job
            files, argv, sources, meta, expected, ranks, dts = sets[si]
            env = dict(env)
            notrace = env.pop("_notrace", False)
            pre = env.pop("_pre", [])
            colour = env.pop("_colour", False)
            perm = env.pop("_perm", None)
            if perm is not None:
                argv2 = [argv[i] for i in perm]
                src2 = [sources[i] for i in perm]
                exp2 = b"".join(m.data for m in gen.expected_merge(src2))
                dts2 = [dts[i] for i in perm]
            else:
                argv2, src2, exp2, dts2 = argv, sources, expected, dts
            case = Case(files, ["--color", "always" if colour else "never"] + pre + argv2, exp2, env=env, plan=plan,
                        note={"set": si, "schedule": label, "meta": meta, "perm": perm, "colour": colour}, timeout=30)
            # (the event sink serialises the threads a little: the repeated free runs go without it)
            r = case.run(os.path.join(sc, "run", "j%d" % ji), trace=not notrace)
            case.note["untraced"] = notrace
            return case, label, r, src2, dts2, ranks

        t0 = time.time()
        with ThreadPoolExecutor(max_workers=8) as ex:
            results = list(ex.map(do, list(enumerate(jobs))))
        log("%s: %d runs in %.1fs" % (pid, len(results), time.time() - t0))

        # property-level judgement: stdout against the stable merge of the ground truth
        distinct = set()
        nontrivial = 0
        batches, cur = [], []
        plan_followed = plan_total = 0
        samples = []
        colour_ref = {}
        for case, label, r, src2, dts2, ranks in results:
            key = (tuple(tuple(d) for d in dts2), label, str(sorted(case.env.items())), str(case.plan)[:200])
            if key not in distinct:
                distinct.add(key)
                flat = [x for d in dts2 for x in d]
                if len(dts2) >= 2 and len(set(flat)) < len(flat):
                    nontrivial += 1  # >= 2 sources with a tie somewhere
            if r.timed_out:
                rep.violation("hang:%s" % label, "run did not end within %ss (schedule %s)" % (case.timeout, label),
                              case.replay_record(r))
                continue
            if r.crashed:
                rep.violation("crash:%s" % label, "rc=%s stderr=%r" % (r.rc, r.err[-300:]), case.replay_record(r))
                continue
            if case.note.get("colour") and not r.timed_out and not r.crashed:
                from . import c13
                raw = r.out
                ref = colour_ref.setdefault(case.note["set"], raw)
                if raw != ref:
                    rep.violation("colour-by-schedule", "--color always: the bytes on stdout (escape sequences included) differ between two "
                                  "schedules of the same run, at byte %d" % first_diff(raw, ref), case.replay_record(r))
                    continue
                r.out = c13.SGR.sub(b"", raw)
            if r.out != case.expected:
                i = first_diff(r.out, case.expected)
                rep.violation("stdout-order:%s" % label,
                              "stdout differs from the stable merge of the sources at byte %d (schedule %s, %d sources)"
                              % (i, label, len(src2)), case.replay_record(r))
            if r.rc != 0 and all(len(s) > 0 for s in src2):
                rep.violation("exit-status:%s" % label, "exit status %d for well-formed sources" % r.rc,
                              case.replay_record(r))
            if case.note.get("untraced"):
                continue
            runmodel.check_hooks_present(r.trace)
            if label == "tlc-plan":
                plan_total += 1
                if not any(e["ev"] == "PlanAbandoned" for e in r.trace):
                    plan_followed += 1
            # shapes from the run's own SendStart events (k=0 ok flag, k=2 summary error flag)
            shapes = []
            for w in range(len(src2)):
                fiok = [e for e in r.trace if e["ev"] == "SendStart" and e["t"] == "w%d" % w and e["k"] == 0]
                serr = [e for e in r.trace if e["ev"] == "SendStart" and e["t"] == "w%d" % w and e["k"] == 2]
                if fiok and fiok[0]["ok"] == 0:
                    shapes.append("fierr")
                elif serr and serr[0]["ds"] == 1:
                    shapes.append("sumerr")
                else:
                    shapes.append("ok")
            # the instant every worker announces for its i-th message is the instant that message denotes (the merge is
            # specified over these): read off the SendStart events, compared with the generator's ground truth
            bad_inst = None
            for e in r.trace:
                if e["ev"] == "SendStart" and e.get("k") == 1:
                    w_, i_ = int(e["t"][1:]), e["i"]
                    if w_ < len(src2) and i_ < len(src2[w_]) and (e["ds"], e["dn"]) != (src2[w_][i_].sec, src2[w_][i_].nanos):
                        bad_inst = (w_, i_, (e["ds"], e["dn"]), (src2[w_][i_].sec, src2[w_][i_].nanos))
                        break
            if bad_inst:
                rep.violation("announced-instant", "source %d message %d enters the merge with instant %s, its timestamp denotes %s"
                              % bad_inst, case.replay_record(r))
                continue
            recs = [runmodel.reset_record(dts2, shapes)] + runmodel.annotate(r.trace, ranks)
            cur.append((recs, case, label))
            if sum(len(x[0]) for x in cur) > 4000:
                batches.append(cur)
                cur = []
            if len(samples) < 3:
                samples.append({"argv": case.argv, "schedule": label, "env": case.env,
                                "dts_rank_per_source": dts2, "plan_head": (case.plan or [])[:8],
                                "stdout_lines": r.out.count(b"\n"), "events": len(r.trace)})
        if cur:
            batches.append(cur)

        # every supported kind in one merge: text, accounting records, event log (cut by -b), journal -- with text
        # messages placed exactly on record / entry instants so that the tie rule decides across kinds.  Ground truth:
        # generator (text, records), evtx_dump, journalctl; observed: the Print events (source, instant) in order.
        mixed_runs = 0
        if True:
            import shutil, subprocess, json as _json
            from . import c08, c10, c09
            md = os.path.join(sc, "mixed")
            os.makedirs(md)
            ev_src = os.path.join(common.REPO, c10.EVTX)
            shutil.copyfile(ev_src, os.path.join(md, "k.evtx"))
            common.build_harness(["evtx_dump"])
            ev = [x for x in c10.dump(ev_src)]
            cut = (ev[0]["secs"], 575_000_000)
            ev_sel = sorted([x for x in ev if (x["secs"], x["nanos"]) <= cut], key=lambda x: ((x["secs"], x["nanos"]), x["idx"]))
            ev_inst = [(x["secs"], x["nanos"]) for x in ev_sel]
            base_s = ev[0]["secs"]
            # text messages: some exactly on event-record instants (microsecond precision), some between
            t_inst = sorted(set([ev_inst[0], ev_inst[len(ev_inst) // 2], ev_inst[-1], (base_s, 559_000_000), (base_s, 560_500_000)]))
            def render(letter, insts):
                return b"".join((gen.fmt_ts(s_, n_, 0, 6) + " src=%s idx=%d\n" % (letter, i)).encode() for i, (s_, n_) in enumerate(insts))
            with open(os.path.join(md, "a.log"), "wb") as f:
                f.write(render("A", t_inst))
            with open(os.path.join(md, "z.log"), "wb") as f:
                f.write(render("Z", t_inst))
            u_inst = [(base_s, 559_000_000), ev_inst[0], ev_inst[0], ev_inst[-1]]
            with open(os.path.join(md, "wtmp"), "wb") as f:
                f.write(b"".join(gen.utmp_record(7, 1000 + i, b"pts/%d" % i, b"t%d" % i, b"u%d" % i, b"h%d" % i, s_, n_ // 1000) for i, (s_, n_) in enumerate(u_inst)))
            u_inst = [(s_, (n_ // 1000) * 1000) for s_, n_ in u_inst]
            with open(os.path.join(md, "u.journal"), "wb") as f:
                subprocess.run(["gzip", "-dc", os.path.join(common.REPO, "logs/programs/journal/Ubuntu22-user-1000x3.journal.gz")], stdout=f, check=True)
            jt = [int(_json.loads(l)["__REALTIME_TIMESTAMP"]) for l in c09.jctl(os.path.join(md, "u.journal"), "-o", "json", "--utc").decode().splitlines()]
            j_inst = [(t // 10**6, (t % 10**6) * 1000) for t in jt]
            with open(os.path.join(md, "j.log"), "wb") as f:
                f.write(render("J", sorted(set([j_inst[0], j_inst[-1], (j_inst[0][0] + 5, 0)]))))
            jl_inst = sorted(set([j_inst[0], j_inst[-1], (j_inst[0][0] + 5, 0)]))
            # accounting records NOT stored chronologically (lastlog is indexed by uid; wtmp after a clock step): the record at
            # the physical end of the file is not the latest one, and a long text log has messages between the records
            nc_disk = [(base_s + 905, 0), (base_s + 1805, 0), (base_s + 5, 0), (base_s + 1205, 5000), (base_s + 2, 7000)]
            with open(os.path.join(md, "nc.wtmp"), "wb") as f:
                f.write(b"".join(gen.utmp_record(7, 2000 + i, b"pts/%d" % i, b"n%d" % i, b"v%d" % i, b"g%d" % i, s_, n_ // 1000) for i, (s_, n_) in enumerate(nc_disk)))
            long_inst = [(base_s + 10 * i, 0) for i in range(300)]
            with open(os.path.join(md, "long.log"), "wb") as f:
                f.write(render("L", long_inst))
            msets = [
                (["nc.wtmp", "long.log"], [sorted(nc_disk), long_inst], []),
                (["long.log", "nc.wtmp", "a.log"], [long_inst, sorted(nc_disk), t_inst], []),
                (["a.log", "k.evtx", "wtmp", "z.log"], [t_inst, ev_inst, sorted(u_inst), t_inst], ["-b", gen.fmt_ts(cut[0], cut[1], 0, 6)]),
                (["k.evtx", "z.log", "a.log", "wtmp"], [ev_inst, t_inst, t_inst, sorted(u_inst)], ["-b", gen.fmt_ts(cut[0], cut[1], 0, 6)]),
                (["j.log", "u.journal"], [jl_inst, j_inst], []),
                (["u.journal", "j.log"], [j_inst, jl_inst], []),
            ]
            for files_, truth, win in msets:
                exp = sorted([(inst, w, i) for w, lst in enumerate(truth) for i, inst in enumerate(lst)], key=lambda x: (x[0], x[1], x[2]))
                exp_seq = [(w, inst) for inst, w, i in exp]
                scheds = [{}] + [{"S4_VERIF_SEED": str(rng.randrange(1 << 30)), "S4_VERIF_DELAY_US": "500"} for _ in range(2 if tier == "quick" else 8)]
                scheds += [{"S4_VERIF_HOLD": "w%d:SendStart:%d:60" % (w, k)} for w in range(len(files_)) for k in (0, 1)]
                for env in scheds:
                    tmpd = os.path.join(md, "tmp")
                    os.makedirs(tmpd, exist_ok=True)
                    rr = common.run_s4(["--color", "never"] + win + files_, cwd=md, env=env, trace=True, timeout=60, tmpdir=tmpd)
                    mixed_runs += 1
                    rec = {"kind": "mixed", "files": files_, "window": win, "env": env, "rc": rr.rc}
                    if rr.crashed or rr.rc != 0:
                        rep.violation("mixed:crash", "rc=%s %r" % (rr.rc, rr.err[-200:]), rec)
                        continue
                    got_seq = [(e["w"], (e["ds"], e["dn"])) for e in rr.trace if e["ev"] == "Print"]
                    if got_seq != exp_seq:
                        k = next((i for i, (g, e) in enumerate(zip(got_seq, exp_seq)) if g != e), min(len(got_seq), len(exp_seq)))
                        rec.update({"at": k, "got": got_seq[max(0, k - 2):k + 3], "want": exp_seq[max(0, k - 2):k + 3]})
                        rep.violation("mixed-kinds-order", "merge of %s: print %d is %s, the stable merge has %s" % (files_, k, got_seq[k] if k < len(got_seq) else None, exp_seq[k] if k < len(exp_seq) else None), rec)

        # C06: the reader of standard output goes away early (`s4 ... | head`): the run must still end promptly
        epipe_runs = 0
        if pid == "C06":
            import subprocess
            d = os.path.join(sc, "epipe")
            os.makedirs(d)
            names = []
            for w in range(3):
                blob, _ = gen.text_source(chr(65 + w), [(gen.BASE + i, 0) for i in range(4000)], frac=0, pad=60)
                with open(os.path.join(d, "e%d.log" % w), "wb") as f:
                    f.write(blob)
                names.append("e%d.log" % w)
            for take in ([0, 10, 70000] if tier == "quick" else [0, 1, 10, 4096, 65536, 70000, 300000]):
                p = subprocess.Popen([common.S4_BIN, "-t", "+00:00", "--color", "never"] + names, cwd=d, stdout=subprocess.PIPE,
                                     stderr=subprocess.PIPE, env={"PATH": os.environ.get("PATH", ""), "TZ": "UTC"})
                try:
                    if take:
                        p.stdout.read(take)
                    p.stdout.close()
                    t0_ = time.time()
                    p.wait(timeout=30)
                    epipe_runs += 1
                    if p.returncode not in (0, 1):
                        rep.violation("epipe:exit-status", "exit status %s after the reader of stdout closed the pipe" % p.returncode,
                                      {"kind": "epipe", "take": take, "stderr": p.stderr.read()[-300:].decode(errors="replace")})
                except subprocess.TimeoutExpired:
                    p.kill()
                    rep.violation("epipe:hang", "run did not end within 30 s after the reader of stdout closed the pipe (read %d bytes)" % take,
                                  {"kind": "epipe", "take": take})
                finally:
                    try:
                        p.stderr.close()
                    except Exception:
                        pass

        # C06: many sources at once (the quantifier has no bound on N): every worker beyond the channel capacity blocks on
        # its channel until the printing thread has a message of every source -- no resource shared between workers may
        # be held while blocked.  300 / 520 sources with 7 messages each (FileInfo + 7 + summary > capacity + 2).
        wide_runs = 0
        if pid == "C06":
            import resource
            fdlim = resource.getrlimit(resource.RLIMIT_NOFILE)[0]
            for nsrc in ([300] if tier == "quick" else [257, 300, 520, 1030]):
                if 2 * nsrc + 64 > fdlim:
                    log("%s: wide run with %d sources skipped (open-file limit %d)" % (pid, nsrc, fdlim))
                    continue
                d = os.path.join(sc, "wide%d" % nsrc)
                os.makedirs(d)
                names, srcs = [], []
                for w in range(nsrc):
                    blob, msgs = gen.text_source("W%d" % w, [(gen.BASE + 3 * i + (w % 3), 0) for i in range(7)], frac=0, pad=8)
                    with open(os.path.join(d, "w%04d.log" % w), "wb") as f:
                        f.write(blob)
                    names.append("w%04d.log" % w)
                    srcs.append(msgs)
                expw = b"".join(m.data for m in gen.expected_merge(srcs))
                rr = common.run_s4(["--color", "never"] + names, cwd=d, timeout=120)
                wide_runs += 1
                rec = {"kind": "wide", "sources": nsrc, "messages_per_source": 7, "rc": rr.rc}
                if rr.timed_out:
                    rep.violation("wide:hang", "%d sources of 7 messages: no exit within 120 s, %d bytes printed" % (nsrc, len(rr.out)), rec)
                elif rr.crashed or rr.rc != 0:
                    rep.violation("wide:crash", "%d sources: rc=%s %r" % (nsrc, rr.rc, rr.err[-200:]), rec)
                elif rr.out != expw:
                    rep.violation("wide:stdout", "%d sources: stdout is not the stable merge" % nsrc, rec)
                shutil.rmtree(d, ignore_errors=True)

        # C01: "in the order the sources were named (command-line order; sorted path order inside a walked directory)":
        # directories and single files interleaved on the command line, every message at one instant
        dir_runs = 0
        if pid == "C01":
            from . import c15
            for label, argv, rr, want_m in c15.mixed_argument_runs(sc, rng, 6 if tier == "quick" else 30):
                dir_runs += 1
                if rr.crashed or rr.timed_out:
                    rep.violation("named-order:crash", "%s: rc=%s" % (argv, rr.rc), {"kind": "mixed-args", "argv": argv})
                elif rr.out != want_m:
                    rep.violation("named-order:stdout", "%s %s: tied messages are not printed in the order the sources were named (differs at byte %d)"
                                  % (label, argv, first_diff(rr.out, want_m)), {"kind": "mixed-args", "argv": argv, "got": rr.out[:600].decode(errors="replace")})

        # C01: accounting records in the layouts of other systems (shipped samples, re-timed): two files sharing their seconds
        foreign_merges = 0
        if pid == "C01":
            from . import c08
            foreign_merges = sum(f_["merges"] for f_ in c08.foreign_layouts(sc, rep, rng, tier, merge=True))
        # C01: the zone a timestamp without zone is READ in (--tz-offset) and the zone prepended datetimes are WRITTEN in
        # (-u / -l / -z) are two things: a source without zone information merged with one that states its offset, the two
        # options set apart, messages closer together than the zones are
        zone_runs = 0
        if pid == "C01":
            dz = os.path.join(sc, "zones")
            os.makedirs(dz)
            zjobs = []
            for zi, tmin in enumerate([0, 300, -480, 345] if tier == "quick" else [0, 60, 300, -480, 345, 825, -210]):
                ia = [(gen.BASE + 40 * i, 0) for i in range(8)]
                ib = [(gen.BASE + 40 * i + 13, 0) for i in range(8)]
                blob_a, ma = gen.text_source("NAIVE", [(s_ + tmin * 60, n_) for s_, n_ in ia], frac=0, zone=False)
                for m_, (s_, n_) in zip(ma, ia):
                    m_.sec = s_
                blob_b, mb = gen.text_source("ABS", ib, offset_min=0, frac=0)
                gen.write(os.path.join(dz, "z%d" % zi, "naive.log"), blob_a)
                gen.write(os.path.join(dz, "z%d" % zi, "abs.log"), blob_b)
                merged = gen.expected_merge([ma, mb])
                tz = "%s%02d:%02d" % ("+" if tmin >= 0 else "-", abs(tmin) // 60, abs(tmin) % 60)
                for popt in ([], ["-u"], ["-l"], ["-z", "+03:00"], ["-z=-08:00"], ["-z=" + tz]):
                    zjobs.append((zi, tz, popt, merged))

            def zdo(job):
                zi, tz, popt, merged = job
                argv = ["--tz-offset=" + tz, "--color", "never"] + (popt + ["-d", "@@"] if popt else []) + ["naive.log", "abs.log"]
                return common.run_s4(argv, cwd=os.path.join(dz, "z%d" % zi), tz_args=False, timeout=60)
            with ThreadPoolExecutor(max_workers=8) as ex:
                zres = list(ex.map(zdo, zjobs))
            for (zi, tz, popt, merged), rr in zip(zjobs, zres):
                zone_runs += 1
                want_z = b"".join((b"@@:" if popt else b"") + m_.data for m_ in merged)
                if rr.crashed or rr.timed_out:
                    rep.violation("zones:crash", "--tz-offset=%s %s: rc=%s" % (tz, popt, rr.rc), {"kind": "zones", "tz": tz, "prepend": popt})
                elif rr.out != want_z:
                    rep.violation("zones:order", "--tz-offset=%s %s: a source without zone information and one with +00:00 are not merged by the "
                                  "instants they denote (differs at byte %d)" % (tz, " ".join(popt), first_diff(rr.out, want_z)),
                                  {"kind": "zones", "tz": tz, "prepend": popt, "got": rr.out[:500].decode(errors="replace")})

        # C06: "however slowly each file can be read": one source delivers nothing for seconds (a slow device, a huge
        # compressed member) at its FileInfo, at a message in the middle, at its summary, while the printing thread waits
        slow_runs = 0
        if pid == "C06":
            d = os.path.join(sc, "slow")
            os.makedirs(d)
            srcs = []
            for w, letter in enumerate("PQ"):
                blob, msgs = gen.text_source(letter, [(gen.BASE + 2 * i + w, 0) for i in range(30)], frac=0, pad=12)
                with open(os.path.join(d, "%s.log" % letter), "wb") as f:
                    f.write(blob)
                srcs.append(msgs)
            exps = b"".join(m.data for m in gen.expected_merge(srcs))
            pauses = [2600, 6500] if tier == "quick" else [1100, 2600, 6500, 12500, 31000, 61000]
            sjobs = [("w%d:SendStart:%d:%d" % (w, k, ms), ms) for ms in pauses for (w, k) in ((1, 0), (0, 7), (1, 31))][: (4 if tier == "quick" else 99)]

            def sdo(job):
                hold, ms = job
                return common.run_s4(["--color", "never", "P.log", "Q.log"], cwd=d, env={"S4_VERIF_HOLD": hold}, timeout=ms / 1000 + 60)
            with ThreadPoolExecutor(max_workers=8) as ex:
                sres = list(ex.map(sdo, sjobs))
            for (hold, ms), rr in zip(sjobs, sres):
                slow_runs += 1
                rec = {"kind": "slow", "hold": hold, "rc": rr.rc, "stdout_bytes": len(rr.out)}
                if rr.timed_out:
                    rep.violation("slow:hang", "a source silent for %d ms: no exit" % ms, rec)
                elif rr.crashed or rr.rc != 0:
                    rep.violation("slow:crash", "a source silent for %d ms: rc=%s" % (ms, rr.rc), rec)
                elif rr.out != exps:
                    rep.violation("slow:stdout", "a source silent for %d ms (%s): stdout is not the stable merge (%d of %d bytes)"
                                  % (ms, hold, len(rr.out), len(exps)), rec)

        # I->S: every trace against TraceS4Run (all S4Run invariants + PrintIsEarliest at every step)
        accepted = 0
        for bi, batch in enumerate(batches):
            recs = [x for b in batch for x in b[0]]
            ok, first, tr = runmodel.validate(os.path.join(sc, "tv"), recs, timeout=600)
            if ok:
                accepted += len(batch)
                continue
            # find the offending run: re-validate one by one
            for recs1, case, label in batch:
                ok1, first1, tr1 = runmodel.validate(os.path.join(sc, "tv1"), recs1, timeout=300)
                if ok1:
                    accepted += 1
                elif tr1.violated and tr1.violated != "postcondition":
                    rep.violation("trace:%s:%s" % (tr1.violated, label),
                                  "recorded execution violates %s of S4Run.tla (schedule %s)" % (tr1.violated, label),
                                  dict(case.replay_record(), trace=recs1[:400]))
                else:
                    ev = recs1[first1 - 1] if first1 and first1 <= len(recs1) else None
                    rep.note_drift("trace of schedule %s not explained by S4Run.tla at event %s: %s"
                                   % (label, first1, ev))
        rep.coverage = {
            "states": states, "transitions": trans, "traces_validated_against_impl": accepted,
            "evaluations": len(results), "distinct_nontrivial": nontrivial,
            "rule": "distinct = (ground-truth instants per source, schedule) pairs; non-trivial = >= 2 sources with at "
                    "least one equal instant inside or across sources",
            "samples": samples, "tlc_configs": details, "tlc_plans_followed": plan_followed, "tlc_plans_run": plan_total,
            "source_sets": nsets, "closed_pipe_runs": epipe_runs, "mixed_kind_runs": mixed_runs, "wide_runs": wide_runs, "slow_source_runs": slow_runs, "directory_and_file_argument_runs": dir_runs, "read_zone_vs_written_zone_runs": zone_runs, "foreign_layout_merges": foreign_merges, "exhaustive": False,
            "checker_cmd": "tlc -config <generated MC cfg> S4Run.tla ; tlc -workers 1 -config <trace cfg> TraceS4Run.tla",
        }
        rep.assumptions = [
            "TLC result is exhaustive only for the listed constants (N<=3, M<=3, |DT|<=3); CAP read from CHANNEL_CAPACITY",
            "crossbeam select picks any ready channel (modelled as nondeterministic choice)",
            "text sources are chronological; instants compared as instants (UTC offsets differ between sources)",
            "the exhaustive result transfers to the code while recorded traces are accepted by TraceS4Run.tla",
        ]
    return rep.finish()
