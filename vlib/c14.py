"""C14: datetime-filter arguments resolve to the documented instant.

Spec: CliDt.tla -- meaning of absolute / epoch / relative arguments, the evaluation order ('@' arguments second),
the rejections; TLC checks the evaluation-order machine against the declarative Resolve on every pair of abstract
arguments.  Code: concrete strings are rendered for every absolute pattern x zone spelling x fraction length, every
order of a subset of w/d/h/m/s units with multi-digit counts and both signs, with and without '@', and near-miss
strings; the instants the program resolved are read from the `Datetime filter -a/-b` lines of --summary (now-relative
forms against the run's own `Datetime Now` line) and compared with Resolve; rejections must exit non-zero with
nothing on stdout."""
import itertools
import os
import random
import re
import time
from concurrent.futures import ThreadPoolExecutor

from . import common, gen
from .common import Reporter, Scratch, ToolError, log, tlc, write_cfg, Raw

RE_A = re.compile(rb"Datetime filter -a\s*:\s*(.*)")
RE_B = re.compile(rb"Datetime filter -b\s*:\s*(.*)")
RE_NOW = re.compile(rb"Datetime Now\s*:\s*[^(]*\(([^)]*)\)")
RE_UTC = re.compile(rb"\((\d{4})-(\d\d)-(\d\d) (\d\d):(\d\d):(\d\d)(?:\.(\d+))? \+00:00\)")
UNIT = {"w": 604800, "d": 86400, "h": 3600, "m": 60, "s": 1}
ZONES = [("", None), ("+0000", 0), ("-0800", -480), ("+05:30", 330), ("-03:30", -210), ("+09", 540), ("Z", 0), ("UTC", 0), ("PST", -480),
         ("JST", 540), ("CET", 60)]
AMBIG = ["IST", "ACT"]


def parse_line(m):
    if not m:
        return "absent"
    txt = m.group(1).strip()
    if not txt:
        return None
    u = RE_UTC.search(txt)
    if not u:
        return "unparsed:" + txt.decode(errors="replace")
    import calendar
    y, mo, d, H, M, S = (int(u.group(i)) for i in range(1, 7))
    frac = u.group(7)
    nanos = int((frac.decode() + "000000000")[:9]) if frac else 0
    return (calendar.timegm((y, mo, d, H, M, S, 0, 0, 0)), nanos)


def abs_forms(rng, tier):
    """(string, local seconds, nanos, zone offset minutes or None)"""
    out = []
    import calendar
    locs = [(2024, 1, 1, 0, 0, 0), (2023, 12, 31, 23, 59, 59), (2024, 2, 29, 12, 30, 15), (2001, 7, 4, 6, 7, 8)]
    for (y, mo, d, H, M, S) in locs:
        loc = calendar.timegm((y, mo, d, H, M, S, 0, 0, 0))
        midnight = calendar.timegm((y, mo, d, 0, 0, 0, 0, 0, 0))
        for s in ("%04d%02d%02d" % (y, mo, d), "%04d-%02d-%02d" % (y, mo, d), "%04d/%02d/%02d" % (y, mo, d)):
            out.append((s, midnight, 0, None))
        bases = [("%04d%02d%02dT%02d%02d%02d" % (y, mo, d, H, M, S), "", "compact"),
                 ("%04d-%02d-%02d %02d:%02d:%02d" % (y, mo, d, H, M, S), " ", "space"),
                 ("%04d-%02d-%02dT%02d:%02d:%02d" % (y, mo, d, H, M, S), "", "T"),
                 ("%04d/%02d/%02d %02d:%02d:%02d" % (y, mo, d, H, M, S), " ", "slash")]
        for base, zsep, style in bases:
            for frac, nanos in (("", 0), (".123", 123000000), (".123456", 123456000)):
                for ztxt, zoff in ZONES:
                    # zone spellings the documented patterns accept per style
                    if ztxt == "+09" and style in ("compact",):
                        pass
                    s = base + frac + ((zsep if ztxt else "") + ztxt)
                    out.append((s, loc, nanos, zoff))
    return out


def rel_forms(rng, tier):
    """(string, at, offset seconds)"""
    out = []
    units = "wdhms"
    subsets = []
    for n in (1, 2, 3):
        for sub in itertools.permutations(units, n):
            subsets.append(sub)
    rng.shuffle(subsets)
    for sub in subsets[: (40 if tier == "quick" else len(subsets))]:
        counts = [rng.choice([1, 2, 10, 45, 100]) for _ in sub]
        body = "".join("%d%s" % (c, u) for c, u in zip(counts, sub))
        tot = sum(c * UNIT[u] for c, u in zip(counts, sub))
        for sign in "+-":
            for at in ("", "@"):
                out.append((at + sign + body, bool(at), tot if sign == "+" else -tot))
    return out


def run(pid, tier, seed):
    rep = Reporter(pid, tier, seed, "model_checking")
    rng = random.Random(seed * 5323 + 14)
    common.build_s4()
    with Scratch(pid) as sc:
        cfg = write_cfg(os.path.join(sc, "tlc", "cd.cfg"), {"TZ": 3, "NOW": 50, "Locs": {10, 20}, "Offs": Raw("{0, 3}"), "Durs": Raw("{7}")},
                        spec="Spec", invariants=["MachineIsResolve", "AtEquivalence"], properties=["Terminates"])
        # negative offsets / durations come from the MC module
        with open(cfg) as f:
            txt = f.read().replace("Offs = {0, 3}", "Offs <- MC_Offs").replace("Durs = {7}", "Durs <- MC_Durs")
        with open(cfg, "w") as f:
            f.write(txt)
        r = tlc("MC_CliDt", cfg, os.path.join(sc, "tlc"), workers=4, timeout=900)
        if r.violated:
            rep.violation("model:CliDt:%s" % r.violated, "CliDt.tla violates %s" % r.violated, {"kind": "tlc", "cmd": r.cmd})
        else:
            common.tlc_must_pass(r, "CliDt")
        d = os.path.join(sc, "w")
        os.makedirs(d)
        with open(os.path.join(d, "p.log"), "wb") as f:
            f.write(b"2024-01-01T00:00:01+00:00 probe line\n2024-01-01T00:00:02+00:00 probe line\n")
        absf = abs_forms(rng, tier)
        relf = rel_forms(rng, tier)
        tzs = [("+00:00", 0), ("+09:00", 540), ("-08:00", -480)] if tier == "thorough" else [("+00:00", 0), ("+09:00", 540)]
        # --tz-offset given as a zone NAME (the project's table): west of UTC with minutes, east with minutes, whole hours
        named = [("NST", -210), ("NDT", -150), ("MART", -570), ("nst", -210), ("ACDT", 630), ("PST", -480), ("CEST", 120)]
        tzs += named if tier == "thorough" else [named[seed % 3], named[3 + seed % 4]]
        jobs = []  # (argv_a, argv_b, tz, expect)  expect: ("ok", A, B) with A/B = (secs, nanos) | None | ("now", off) or ("reject",)

        def mean_abs(f, tzmin):
            s, loc, nanos, zoff = f
            off = tzmin if zoff is None else zoff
            return (loc - off * 60, nanos)

        for tzs_, tzmin in tzs:
            pick = absf if tier == "thorough" else rng.sample(absf, 260)
            for f in pick:
                jobs.append((f[0], None, tzs_, ("ok", mean_abs(f, tzmin), None), "abs"))
                if rng.random() < 0.3:
                    jobs.append((None, f[0], tzs_, ("ok", None, mean_abs(f, tzmin)), "abs"))
            # epoch
            for e in (0, 1, 1704067201, 2147483647, 4102444800):
                jobs.append(("+%d" % e, None, tzs_, ("ok", (e, 0), None), "epoch"))
                jobs.append((None, "+%d" % e, tzs_, ("ok", None, (e, 0)), "epoch"))
            # relative to now / to the other bound
            for s, at, off in (relf if tier == "thorough" else rng.sample(relf, 80)):
                base = rng.choice(absf)
                A = mean_abs(base, tzmin)
                if at:
                    if off >= 0:
                        jobs.append((base[0], s, tzs_, ("ok", A, (A[0] + off, A[1])), "at"))
                    else:
                        jobs.append((s, base[0], tzs_, ("ok", (A[0] + off, A[1]), A), "at"))
                else:
                    if off < 0:
                        jobs.append((s, None, tzs_, ("ok", ("now", off), None), "now"))
                    else:
                        jobs.append((None, s, tzs_, ("ok", None, ("now", off)), "now"))
            # one bound relative to the other, the other relative to now
            ats = [(s_, o_) for s_, a_, o_ in relf if a_]
            nows = [(s_, o_) for s_, a_, o_ in relf if not a_]
            for _ in range(12 if tier == "quick" else 120):
                (sa, oa), (sn, on) = rng.choice(ats), rng.choice(nows)
                if oa < 0:
                    jobs.append((sa, sn, tzs_, ("ok", ("now", on + oa), ("now", on)), "at-of-now"))
                else:
                    jobs.append((sn, sa, tzs_, ("ok", ("now", on), ("now", on + oa)), "at-of-now"))
            # rejections
            for bad in ["garbage", "2024-13-01", "2024-01-32", "2024-01-01T25:00:00", "2024-01-01T00:00:00 IST", "20240101T000000ACT", "+",
                        "@", "+1x", "1d", "2024-01-01T00:00:00+99", "", "2024-01-01 00:00", "@+1d@", "+-1d",
                        # counts no integer holds, counts in digits that are not ASCII
                        "+99999999999999999999d", "-99999999999999999999s", "+1d99999999999999999999h", "-18446744073709551616w",
                        "+\uff11d", "-\u0661\u0662h"]:
                if bad == "":
                    continue
                jobs.append((bad, None, tzs_, ("reject",), "reject:unparseable"))
            jobs.append(("@+1d", "@-1d", tzs_, ("reject",), "reject:both-at"))
            jobs.append(("2024-01-01T00:00:00", "@+99999999999999999999w", tzs_, ("reject",), "reject:unparseable"))
            jobs.append(("@-1d99999999999999999999h", "2024-01-01T00:00:00", tzs_, ("reject",), "reject:unparseable"))
            jobs.append(("2024-01-02", "2024-01-01", tzs_, ("reject",), "reject:after>before"))
            jobs.append(("2024-01-01T00:00:01", "@-1s", tzs_, ("reject",), "reject:after>before"))
            # after later than before by less than a second / a millisecond / one microsecond; equal bounds are a valid window
            jobs.append(("2000-01-02T03:04:05.678901", "2000-01-02T03:04:05.678", tzs_, ("reject",), "reject:after>before"))
            jobs.append(("2000-01-02T03:04:05.999", "2000-01-02T03:04:05", tzs_, ("reject",), "reject:after>before"))
            jobs.append(("2000-01-02T03:04:05.000001", "2000-01-02T03:04:05.000000", tzs_, ("reject",), "reject:after>before"))
            jobs.append(("2000-01-02T03:04:05.5+00:00", "2000-01-02T04:04:05.499+01:00", tzs_, ("reject",), "reject:after>before"))
            jobs.append(("+946782245", "2000-01-02T03:04:04.999999+00:00", tzs_, ("reject",), "reject:after>before"))

        def do(job):
            a, b, tzs_, exp, cls = job
            argv = ["--tz-offset=" + tzs_, "--color", "never", "-s"]
            if a is not None:
                argv.append("--dt-after=" + a)
            if b is not None:
                argv.append("--dt-before=" + b)
            return common.run_s4(argv + ["p.log"], cwd=d, timeout=60, tz_args=False, trace=True)

        t0 = time.time()
        with ThreadPoolExecutor(max_workers=10) as ex:
            runs = list(ex.map(do, jobs))
        log("C14: %d runs in %.1fs" % (len(runs), time.time() - t0))
        samples = []
        classes = set()
        for (a, b, tzs_, exp, cls), rr in zip(jobs, runs):
            rec = {"kind": "c14", "after": a, "before": b, "tz": tzs_, "expect": exp, "rc": rr.rc, "stderr_tail": rr.err[-300:].decode(errors="replace")}
            classes.add((cls, tzs_, a is not None, b is not None))
            if rr.timed_out or rr.rc < 0 or b"panicked at" in rr.err:
                rep.violation("crash:%s" % cls, "rc=%s" % rr.rc, rec)
                continue
            if exp[0] == "reject":
                if rr.rc == 0 or rr.out:
                    rep.violation("not-rejected:%s" % cls.split(":")[1], "-a %r -b %r accepted (rc=%s, %d bytes printed)" % (a, b, rr.rc, len(rr.out)), rec)
                continue
            if rr.rc != 0:
                rep.violation("rejected:%s" % cls, "-a %r -b %r rejected (rc=%s)" % (a, b, rr.rc), rec)
                continue
            fe = [e for e in rr.trace if e["ev"] == "Filters"]
            if not fe:
                raise ToolError("Filters hook event missing")
            fe = fe[0]
            gotA = (fe["sa"], fe["na"]) if fe["ha"] else None
            gotB = (fe["sb"], fe["nb"]) if fe["hb"] else None
            now = parse_line(re.search(rb"Datetime Now[ \t]*:[ \t]*(.*)", rr.err))
            # the summary lines must say the same instants (whole seconds are shown)
            for nm, rx, g in (("a", RE_A, gotA), ("b", RE_B, gotB)):
                shown = parse_line(re.search(rb"Datetime filter -%s[ \t]*:[ \t]*(.*)" % nm.encode(), rr.err))
                if (shown is None) != (g is None) or (isinstance(shown, tuple) and g is not None and shown[0] != g[0]):
                    rep.violation("summary-filter-line", "summary shows filter -%s as %s, resolved value is %s" % (nm, shown, g), rec)
            for name, got, want in (("a", gotA, exp[1]), ("b", gotB, exp[2])):
                if isinstance(want, tuple) and want and want[0] == "now":
                    if not isinstance(now, tuple):
                        raise ToolError("Datetime Now line not found")
                    want = (now[0] + want[1], 0)
                if got != want:
                    rec.update({"got": got, "want": want, "which": name})
                    sig = "resolve:%s" % cls
                    if cls == "epoch" and tzs_ != "+00:00" and isinstance(got, tuple) and isinstance(want, tuple) and \
                            abs(got[0] - want[0]) == abs(int(tzs_[1:3]) * 3600 + int(tzs_[4:6]) * 60):
                        sig = "epoch-shifted-by-tz-offset"
                    rep.violation(sig, "-%s %r (--tz-offset %s) resolved to %s, documented meaning %s"
                                  % (name, a if name == "a" else b, tzs_, got, want), rec)
                    break
            else:
                if len(samples) < 4 and cls in ("at", "now", "abs") and rng.random() < 0.05:
                    samples.append({"after": a, "before": b, "tz": tzs_, "resolved": [gotA, gotB]})
        rep.coverage = {"states": r.distinct, "transitions": r.generated, "traces_validated_against_impl": 0,
                        "evaluations": len(runs), "distinct_nontrivial": len(classes),
                        "rule": "one evaluation = one (-a, -b, --tz-offset) triple; distinct classes = (form class, zone, which bounds given)",
                        "samples": samples or [{"after": jobs[0][0], "tz": jobs[0][2]}], "absolute_forms": len(absf), "relative_forms": len(relf),
                        "exhaustive": tier == "thorough", "checker_cmd": r.cmd}
        rep.assumptions = ["resolved instants are read from the --summary filter lines", "now-relative forms are compared with the run's own "
                           "'Datetime Now' line (whole seconds)", "'@' with the other bound absent is outside the documented grammar"]
    return rep.finish()
