"""C02 (every message of a text log printed exactly once, byte for byte) and C12 (the block size never changes
what is printed).

Spec: TextLog.tla -- tiling theorem on all abstract files; ReaderAPI call sequences modulo cache state (a
transition cover dumped by TLC with the expected result of every call).
S->I in-process: every (cache state, call) transition replayed on the real LineReader / SyslineReader for several
byte layouts x block sizes 1..32+; S->I end-to-end: files with line lengths relative to the block size through
the real binary at many --blocksz values and containers, stdout against the B-free Printed(file)."""
import json
import os
import random
import subprocess
import time
from concurrent.futures import ThreadPoolExecutor

from . import common, gen, textgen
from .common import Reporter, Scratch, ToolError, log, tlc, write_cfg
from .e2e import Case, first_diff


def tlc_textlog(sc, maxlines, maxcalls):
    cfg = write_cfg(os.path.join(sc, "tlc", "textlog.cfg"), {"MaxLines": maxlines, "MaxCalls": maxcalls, "INBLOCK": True}, spec="Spec",
                    invariants=["TilingInv", "CacheSane", "Dump", "DumpExpect"], view="view")
    r = tlc("TextLog", cfg, os.path.join(sc, "tlc"), workers=1, timeout=900)
    if r.violated:
        return r, [], {}
    common.tlc_must_pass(r, "TextLog")
    states = common.tla_prints(r.output, "STATE")
    files = {}
    for f in common.tla_prints(r.output, "FILE"):
        files[(tuple(f[1]), f[2])] = f[3]
    return r, states, files


def call_offset(layout, line, pos):
    """byte offset of a call at (line index 1-based, pos)"""
    n = len(layout.lines)
    if line > n:
        return layout.size + (line - n - 1)
    i = line - 1
    b, e = layout.beg[i], layout.line_end(i)
    return {"b": b, "m": b + (e - b) // 2, "e": e}[pos]


def expected_results(layout, expect, op, line):
    """the JSON results of one call that the specification allows (a list: the spec is a relation)"""
    n = len(layout.lines)
    if line > n:
        return [{"r": "done"}]
    if op == "line":
        i = line - 1
        return [{"r": "found", "next": layout.line_end(i) + 1, "beg": layout.beg[i], "end": layout.line_end(i),
                 "hex": layout.lines[i].hex()}]
    out = []
    for h, last in [tuple(x) for x in expect[line - 1][3]]:
        if h == 0:
            out.append({"r": "done"})
        else:
            data = b"".join(layout.lines[h - 1:last])
            out.append({"r": "found", "next": layout.line_end(last - 1) + 1, "beg": layout.beg[h - 1],
                        "end": layout.line_end(last - 1), "hex": data.hex()})
    return out


def scan_ok(layout, op, got):
    """the block-zero scan (ScanIB): its own answers are block-size dependent and left open by the specification,
    except that whatever it finds is made of whole lines of the file, in file order: a line (scanline), the leading
    lines of one message (scansys: a message that continues in the next block is answered up to the block end)"""
    if got.get("r") != "scan":
        return False
    at = 0
    for st in got["steps"]:
        if st.get("r") == "done":
            continue
        if st.get("r") != "found":
            return False
        beg, end = st["beg"], st["end"]
        if beg < at or beg not in layout.beg or st["next"] != end + 1:
            return False
        i = layout.beg.index(beg)
        j = i
        while j < len(layout.lines) and layout.line_end(j) < end:
            j += 1
        if j >= len(layout.lines) or layout.line_end(j) != end:
            return False
        if op == "scanline" and j != i:
            return False
        if op == "scansys" and (not layout.dated[i] or any(layout.dated[x] for x in range(i + 1, j + 1))):
            return False
        if st["hex"] != layout.data[beg:end + 1].hex():
            return False
        at = end + 1
    return True


def inproc_part(pid, tier, rng, sc, rep):
    maxlines, maxcalls = (3, 4) if tier == "quick" else (4, 5)
    r, states, files = tlc_textlog(sc, maxlines, maxcalls)
    if r.violated:
        rep.violation("model:TextLog:%s" % r.violated, "TextLog.tla violates %s" % r.violated,
                      {"kind": "tlc", "cmd": r.cmd, "tail": r.output[-3000:]})
        return r, 0, 0, []
    exe = common.harness_bin("reader_replay")
    fdir = os.path.join(sc, "files")
    os.makedirs(fdir)
    instances = []
    meta = {}
    layouts_per_state = 2 if tier == "quick" else 4
    bs_small = list(range(1, 33))
    fid = 0
    for st in states:
        kinds, nl, path = tuple(st[1]), st[2], st[3]
        expect = files[(kinds, nl)]
        n = len(kinds)
        calls_all = [(op, i, p) for op in ("line", "sysline") for i in range(1, n + 1) for p in ("b", "m", "e")]
        calls_all += [(op, n + k, "b") for op in ("line", "sysline") for k in (1, 2)]
        for _ in range(layouts_per_state):
            lay = textgen.concretise(kinds, nl, rng, notation=rng.choice(textgen.NOTATIONS))
            if lay.size == 0:
                continue
            fid += 1
            fpath = os.path.join(fdir, "f%d.log" % fid)
            with open(fpath, "wb") as f:
                f.write(lay.data)
            # one block size per call keeps the number of instances linear; all sizes are reached over the run
            for (op, line, pos) in calls_all:
                B = rng.choice(bs_small + [lay.size, lay.size + 1, max(1, lay.size - 1), 64, 4096])
                seq = [(c[0], c[1], c[2]) for c in path] + [(op, line, pos)]
                reader = "line" if all(c[0] in ("line", "scanline") for c in seq) else "sysline"
                if reader == "sysline" and any(c[0] in ("line", "scanline") for c in seq):
                    # SyslineReader has no find_line entry point: line calls are kept only in all-line sequences
                    seq = [c for c in seq if c[0] in ("sysline", "scansys")]
                    if not seq or seq[-1] != (op, line, pos):
                        continue
                iid = len(instances)
                instances.append({"id": iid, "path": fpath, "blocksz": B, "reader": reader,
                                  "calls": [[c[0], _arg(lay, c)] for c in seq]})
                meta[iid] = (lay, expect, seq, B, kinds, nl)
    # run through the harness in parallel chunks
    chunks = [instances[i::8] for i in range(8)]

    def runchunk(chunk):
        inp = "\n".join(json.dumps(x) for x in chunk) + "\n"
        p = subprocess.run([exe], input=inp.encode(), stdout=subprocess.PIPE, stderr=subprocess.PIPE, timeout=1800)
        return [json.loads(l) for l in p.stdout.decode().splitlines() if l.strip()]

    t0 = time.time()
    with ThreadPoolExecutor(max_workers=8) as ex:
        outs = [o for res in ex.map(runchunk, chunks) for o in res]
    log("%s: %d in-process instances in %.1fs" % (pid, len(outs), time.time() - t0))
    if len(outs) != len(instances):
        raise ToolError("reader_replay returned %d results for %d instances" % (len(outs), len(instances)))
    ncalls = 0
    distinct = set()
    samples = []
    for o in outs:
        lay, expect, seq, B, kinds, nl = meta[o["id"]]
        if "panic" in o or "open_err" in o:
            rep.violation("inproc:panic", "reader panicked / failed to open: %s" % (o.get("panic") or o.get("open_err")),
                          {"kind": "inproc", "file_hex": lay.data.hex(), "blocksz": B, "calls": seq, "out": o})
            continue
        for (op, line, pos), got in zip(seq, o["res"]):
            ncalls += 1
            if op in ("scanline", "scansys"):
                if not scan_ok(lay, op, got):
                    rep.violation("inproc:%s" % op, "%s(%d) at blocksz %d on %s nl=%s answered %s"
                                  % (op, line, B, "".join(kinds), nl, json.dumps(got)[:300]),
                                  {"kind": "inproc", "file_hex": lay.data.hex(), "blocksz": B,
                                   "calls": [[c[0], _arg(lay, c)] for c in seq], "got": got})
                    break
                continue
            wants = expected_results(lay, expect, op, line)
            want = wants[0]
            gotc = {k: got.get(k) for k in ("r", "next", "beg", "end", "hex") if k in got}
            if gotc.get("r") == "done":
                gotc = {"r": "done"}
            if gotc not in wants:
                rep.violation("inproc:%s:%s" % (op, "done" if want["r"] == "done" else "found"),
                              "%s(%d) at blocksz %d on %s nl=%s: expected %s got %s"
                              % (op, call_offset(lay, line, pos), B, "".join(kinds), nl, _short(want), _short(gotc)),
                              {"kind": "inproc", "file_hex": lay.data.hex(), "blocksz": B,
                               "calls": [[c[0], _arg(lay, c)] for c in seq],
                               "expected_last": want, "got_last": gotc})
                break
        distinct.add((kinds, nl, tuple(seq), B, lay.data))
        if len(samples) < 3 and len(seq) >= 2:
            samples.append({"abstract_file": "".join(kinds), "final_newline": nl, "blocksz": B,
                            "file_hex": lay.data.hex()[:160], "calls": [[c[0], _arg(lay, c)] for c in seq]})
    return r, ncalls, len(distinct), samples


def _arg(lay, c):
    """harness argument of a call: the scan ops take a step count, every other op a byte offset"""
    return c[1] if c[0] in ("scanline", "scansys") else call_offset(lay, c[1], c[2])


def _short(d):
    d = dict(d)
    if isinstance(d.get("hex"), str) and len(d["hex"]) > 60:
        d["hex"] = d["hex"][:60] + "..."
    return d


CONTAINERS = ["plain", "gz", "bz2", "xz", "tar"]


def e2e_cases(pid, tier, rng):
    """(Case, layout, B, container) list: stdout at --blocksz B must equal the B-free Printed(file)."""
    cases = []
    nfiles = 14 if tier == "quick" else 120
    for fi in range(nfiles):
        Bfocus = rng.choice([64, 65, 100, 128, 256, 1000, 4096])
        lay = textgen.e2e_layout(rng, Bfocus, nmsgs=rng.choice([1, 2, 3, 5, 9, 20]), final_nl=rng.random() < 0.7,
                                 long_lines=(fi % 3 == 0), first_undated=rng.choice([0, 0, 0, 1, 2]),
                                 crlf=(fi % 4 == 1), safe_head=(fi % 5 != 4),
                                 notation=textgen.NOTATIONS[(fi // 2) % len(textgen.NOTATIONS)], early_nul=(fi % 6 == 2))
        if lay.size <= 5:
            continue
        bss = [Bfocus, Bfocus + 1, 64, 65536]
        # block sizes tied to where lines END: a line ending exactly on the last byte of a block, the next one starting
        # on byte 0 of the following block (for the first lines of the file, and the sizes that divide those offsets)
        for i in range(min(6, len(lay.lines))):
            e = lay.line_end(i) + 1
            for dv in (1, 2, 3, 4):
                if e % dv == 0 and e // dv >= 64:
                    bss.append(e // dv)
        # ... and to where TIMESTAMPS end: the last byte of a head line's timestamp is the last byte of a block (and one
        # byte either side), for the first dated lines beyond offset 64
        nts = 0
        for i in range(len(lay.lines)):
            if lay.dated[i] and lay.beg[i] + lay.tslen >= 64 and len(lay.lines[i]) > lay.tslen + 2:
                e = lay.beg[i] + lay.tslen
                for dv in (1, 2, 3):
                    for adj in (0, -1, 1):
                        if (e + adj) % dv == 0 and (e + adj) // dv >= 64:
                            bss.append((e + adj) // dv)
                nts += 1
                if nts >= 3:
                    break
        if pid == "C12" or tier == "thorough":
            bss += [65, 127, 128, 129, 2 * Bfocus, max(64, lay.size - 1), max(64, lay.size), lay.size + 1, 8096, 8097,
                    0xFFFFFF]
            longest = max(len(l) for l in lay.lines)
            bss += [max(64, longest - 1), max(64, longest), longest + 1]
        bss = [min(max(64, b), 0xFFFFFF) for b in bss]      # the CLI accepts 64 <= BLOCKSZ <= 16777215
        if tier == "quick":
            bss = sorted(set(bss))
            if len(bss) > 10:
                bss = sorted(rng.sample(bss, 10) + [65536])
        if lay.size >= 8096:
            bss += [8095, 8096, 8097]      # (the size at which block-zero analysis changes its demands)
        conts = ["plain"] + ([CONTAINERS[1 + fi % (len(CONTAINERS) - 1)]] if tier == "quick" else CONTAINERS[1:])
        for B in sorted(set(bss)):
            for cont in conts:
                name = "f%d.log" % fi
                files, argv = {}, None
                if cont == "plain":
                    files[name] = lay.data
                    argv = name
                elif cont == "gz":
                    files[name + ".gz"] = gen.gz_bytes(lay.data)
                    argv = name + ".gz"
                elif cont == "bz2":
                    files[name + ".bz2"] = gen.bz2_bytes(lay.data)
                    argv = name + ".bz2"
                elif cont == "xz":
                    files[name + ".xz"] = gen.xz_bytes(lay.data)
                    argv = name + ".xz"
                else:
                    files["f%d.tar" % fi] = gen.tar_bytes([(name, lay.data)])
                    argv = "f%d.tar" % fi
                # colour: never (most runs); not given (stdout is a pipe: the colour printers write plain bytes); always
                # (escape sequences removed before comparing)
                colour = rng.choice(["never", "never", "never", "auto", "always"])
                copt = {"never": ["--color", "never"], "auto": [], "always": ["--color", "always"]}[colour]
                exp_out, wopt = lay.printed(), []
                if lay.tslen == 19 and rng.random() < 0.3:
                    # under a window as well (ISO notation: the head of a dated line is a valid --dt-after value): from the
                    # first message at or after that instant to the end, at every block size, plain (searched) or streamed
                    dl = [i for i in range(len(lay.lines)) if lay.dated[i]]
                    j = rng.choice(dl)
                    A = lay.lines[j][:19]
                    first = next(i for i in dl if lay.lines[i][:19] >= A)
                    exp_out = lay.data[lay.beg[first]:]
                    if not exp_out.endswith(b"\n"):
                        exp_out += b"\n"
                    wopt = ["-a", A.decode()]
                case = Case(files, copt + wopt + ["--blocksz", str(B), argv], exp_out,
                            note={"blocksz": B, "container": cont, "file": fi, "colour": colour, "window": wopt}, timeout=60)
                cases.append((case, lay, B, cont))
    # a compressed log of several hundred kilobytes that does not compress well (decoders hand their output over in pieces
    # of their own choosing: 32 KiB windows, input refills), read at block sizes below, at and above the reader's chunk size
    big = []
    k_ = 0
    while sum(len(x) for x in big) < (300_000 if tier == "quick" else 900_000):
        k_ += 1
        big.append(textgen.ts_head(k_, "iso") + b" big n=%d " % k_ + bytes(rng.choice(b"0123456789abcdefghijklmnopqrstuvwxyzABCDEF") for _ in range(rng.choice([40, 90, 170]))) + b"\n")
    lay = textgen.Layout(big, [True] * len(big))
    lay.tslen = textgen.notation_tslen("iso")
    for cont, enc in (("gz", gen.gz_bytes), ("bz2", gen.bz2_bytes), ("xz", gen.xz_bytes)):
        for Bx in ([64, 1000, 2048, 2056, 2057, 4096, 65536] if cont == "gz" else [64, 2056, 65536]):
            name = "big.log." + cont
            case = Case({name: enc(lay.data)}, ["--color", "never", "--blocksz", str(Bx), name], lay.printed(),
                        note={"blocksz": Bx, "container": cont, "file": name}, timeout=120)
            cases.append((case, lay, Bx, cont))
    # files of exactly the sizes at which the reader changes its ways (block-zero analysis asks more of a block of 8096
    # bytes or more; 65536 is the default block size), read at block sizes below, at and above the file size
    for size in ([8095, 8096, 8097, 65536] if tier == "quick" else [4096, 8095, 8096, 8097, 16192, 65535, 65536, 65537]):
        lay = textgen.exact_size_layout(rng, size, notation=textgen.NOTATIONS[size % len(textgen.NOTATIONS)])
        for Bx in sorted({64, 4096, 8096, min(0xFFFFFF, size), size + 1, 65536}):
            name = "x%d.log" % size
            case = Case({name: lay.data}, ["--color", "never", "--blocksz", str(Bx), name], lay.printed(),
                        note={"blocksz": Bx, "container": "plain", "file": name}, timeout=60)
            cases.append((case, lay, Bx, "plain"))
    # a file that holds ONE message and does not end with a newline (one line; a head line and continuation lines): the
    # newline is supplied
    for oi, (body, Bs) in enumerate([(b"2024-01-01T00:00:01 only message", [64, 66, 256, 65535]),
                                     (b"2024-01-01T00:00:01 only message\n  with a second line\n  and a third", [64, 66, 256, 65535]),
                                     (b"2024-01-01T00:00:01 only " + b"o" * 200, [64, 100, 4096])]):
        lines_ = [x + b"\n" for x in body.split(b"\n")]
        lines_[-1] = lines_[-1][:-1]
        lay = textgen.Layout(lines_, [True] + [False] * (len(lines_) - 1))
        lay.tslen = 19
        for Bx in Bs:
            name = "one%d.log" % oi
            case = Case({name: lay.data}, ["--color", "never", "--blocksz", str(Bx), name], lay.printed(),
                        note={"blocksz": Bx, "container": "plain", "file": name}, timeout=60)
            cases.append((case, lay, Bx, "plain"))
    # a message over several blocks whose last newline is the first byte of a block, short messages behind it in that block:
    # plain and streamed
    for B in ([256, 1024] if tier == "quick" else [128, 256, 512, 1024, 4096]):
        for parts in (1, 5):
            lay = textgen.span_layout(rng, B, notation="iso", nblocks=3, parts=parts)
            for cont, enc in (("plain", None), ("gz", gen.gz_bytes), ("bz2", gen.bz2_bytes)):
                for Bx in (B, B // 2 if B >= 128 else B, 65536):
                    name = "sp%d_%d.log" % (B, parts) + ("" if cont == "plain" else "." + cont)
                    case = Case({name: enc(lay.data) if enc else lay.data}, ["--color", "never", "--blocksz", str(Bx), name], lay.printed(),
                                note={"blocksz": Bx, "container": cont, "file": name}, timeout=60)
                    cases.append((case, lay, Bx, cont))
    # boundary family: the first message(s) end exactly on a block end, a multi-block line starts the next block
    for B in ([64, 100, 128] if tier == "quick" else [64, 65, 100, 128, 200, 256, 1000, 4096, 8096, 9000]):
        for first, contb, shift in [(f_, c_, s_) for f_ in ((1, 2) if B < 8096 else (2, 3)) for c_ in (False, True) for s_ in (0, 1)]:
            lay = textgen.boundary_layout(rng, B, first_lines=first, notation=textgen.NOTATIONS[(B + first) % len(textgen.NOTATIONS)],
                                          continuation=contb, shift=shift)
            for Bx in sorted({B, B + 1, max(64, B - 1), 2 * B, 65536}):
                name = "b%d_%d%s%s.log" % (B, first, "c" if contb else "", "s" if shift else "")
                case = Case({name: lay.data}, ["--color", "never", "--blocksz", str(Bx), name], lay.printed(),
                            note={"blocksz": Bx, "container": "plain", "file": name}, timeout=60)
                cases.append((case, lay, Bx, "plain"))
                if Bx in (B, 2 * B):
                    # (a streamed form cannot read a block again once it has let go of it)
                    case = Case({name + ".gz": gen.gz_bytes(lay.data)}, ["--color", "never", "--blocksz", str(Bx), name + ".gz"], lay.printed(),
                                note={"blocksz": Bx, "container": "gz", "file": name}, timeout=60)
                    cases.append((case, lay, Bx, "gz"))
    return cases


def blockzero_verdicts(sc, pairs):
    """Evaluate spec/BlockZero.tla's Verdict on concrete (layout, B) instances with TLC."""
    insts = []
    for lay, B in pairs:
        insts.append({"B": B, "beg": list(lay.beg), "end": [lay.line_end(i) for i in range(len(lay.lines))],
                      "dated": list(lay.dated), "size": lay.size,
                      "allnul": all(b == 0 for b in lay.data[:min(128, min(B, lay.size))]), "tslen": lay.tslen})
    d = os.path.join(sc, "bz")
    os.makedirs(d, exist_ok=True)
    ipath = os.path.join(d, "instances.json")
    with open(ipath, "w") as f:
        json.dump(insts, f)
    szmax = common.scan_const("src/common.rs", r"^pub const SYSLOG_SZ_MAX: usize = (\d+);")
    cfg = write_cfg(os.path.join(d, "bz.cfg"), {"SZMAX": szmax}, spec="Spec")
    r = tlc("BlockZero", cfg, d, workers=1, timeout=600, env={"INSTANCES": ipath})
    common.tlc_must_pass(r, "BlockZero")
    out = {}
    for v in common.tla_prints(r.output, "VERDICT"):
        out[v[1] - 1] = v[2]
    if len(out) != len(insts):
        raise ToolError("BlockZero.tla returned %d verdicts for %d instances" % (len(out), len(insts)))
    return [out[i] for i in range(len(insts))], r


def run(pid, tier, seed):
    rep = Reporter(pid, tier, seed, "model_checking")
    rng = random.Random(seed * 31337 + (2 if pid == "C02" else 12))
    common.build_s4()
    common.build_harness()
    with Scratch(pid) as sc:
        r, ncalls, ndistinct, samples = inproc_part(pid, tier, rng, sc, rep)
        cases = e2e_cases(pid, tier, rng)

        def do(ic):
            i, (case, lay, B, cont) = ic
            rr = case.run(os.path.join(sc, "e2e", "c%d" % i), trace=True)
            rr.raw_ref = None
            if case.note.get("colour") == "always":
                # with colour the escape sequences are part of what is printed: the same run at a block size that holds the
                # whole file in one block is the reference for them (byte for byte)
                # (the largest block size at which block-zero analysis is predicted to take the file: at the others the
                # reference itself falls under the recorded finding blockzero-reject and prints nothing)
                refB = next((b for b in (0xFFFFFF, 65536, 4096, 1024, 256) if b != B and textgen.blockzero_predict(lay, b) == "accept"), None)
                if refB is not None:
                    ref_argv = [(str(refB) if j > 0 and case.argv[j - 1] == "--blocksz" else a_) for j, a_ in enumerate(case.argv)]
                    ref = Case(case.files, ref_argv, None, timeout=60).run(os.path.join(sc, "e2e", "r%d" % i))
                    rr.raw_ref = ref.out
                    rr.raw_out = rr.out
            return rr

        t0 = time.time()
        with ThreadPoolExecutor(max_workers=10) as ex:
            runs = list(ex.map(do, list(enumerate(cases))))
        log("%s: %d e2e runs in %.1fs" % (pid, len(runs), time.time() - t0))
        nontriv = 0
        e2e_samples = []
        verdicts, rbz = blockzero_verdicts(sc, [(lay, B) for (case, lay, B, cont) in cases])
        bz_agree = bz_total = 0
        for (case, lay, B, cont), rr in zip(cases, runs):
            crossing = any(lay.beg[i] // B != lay.line_end(i) // B for i in range(len(lay.lines)))
            pred = verdicts.pop(0)
            if pred != textgen.blockzero_predict(lay, B):
                raise ToolError("BlockZero.tla (%s) and its Python mirror (%s) disagree" % (pred, textgen.blockzero_predict(lay, B)))
            st1 = [e["ok"] for e in rr.trace if e["ev"] == "Stage1"]
            if st1 and pred != "unknown":
                bz_total += 1
                if (st1[0] == 1) == (pred == "accept"):
                    bz_agree += 1
                elif st1[0] == 1:
                    rep.note_drift("BlockZero.tla predicts reject but the code accepted (blocksz %d, size %d)" % (B, lay.size))
            if crossing:
                nontriv += 1
            if rr.crashed:
                rep.violation("e2e:crash", "rc=%s at --blocksz %d (%s): %r" % (rr.rc, B, cont, rr.err[-200:]),
                              case.replay_record(rr))
                continue
            if case.note.get("colour") == "always":
                from . import c13
                rr.out = c13.SGR.sub(b"", rr.out)
            if rr.out == case.expected and rr.raw_ref is not None and rr.raw_out != rr.raw_ref:
                rep.violation("e2e:colour-by-blocksz:%s" % cont,
                              "--color always: the bytes written (escape sequences included) at --blocksz %d differ from those at a block "
                              "reference block size, at byte %d (%d vs %d bytes)" % (B, first_diff(rr.raw_out, rr.raw_ref), len(rr.raw_out), len(rr.raw_ref)),
                              case.replay_record(rr))
                continue
            if rr.out == case.expected:
                if len(e2e_samples) < 2 and crossing:
                    e2e_samples.append({"blocksz": B, "container": cont, "size": lay.size, "lines": len(lay.lines),
                                        "line_lengths": [len(l) for l in lay.lines][:12]})
                continue
            pred = textgen.blockzero_predict(lay, B)
            # the program itself reports that its block-zero analysis turned the file away (hook event Stage1)
            rejected = rr.out == b"" and any(e["ev"] == "Stage1" and e["ok"] == 0 for e in rr.trace)
            if rejected and pred in ("reject", "unknown"):
                rep.violation("blockzero-reject", "block-zero analysis rejected the file at --blocksz %d" % B,
                              case.replay_record(rr))
            elif rejected:
                rep.violation("blockzero-reject-unpredicted",
                              "file rejected by block-zero analysis at --blocksz %d although BlockZero predicts acceptance" % B,
                              case.replay_record(rr))
            else:
                i = first_diff(rr.out, case.expected)
                rep.violation("e2e:stdout:%s" % cont,
                              "stdout differs from Printed(file) at byte %d (--blocksz %d, %s, size %d)" % (i, B, cont, lay.size),
                              case.replay_record(rr))
        rep.coverage = {
            "states": r.distinct, "transitions": r.generated,
            "traces_validated_against_impl": ndistinct,
            "evaluations": ncalls + len(runs), "distinct_nontrivial": ndistinct + nontriv,
            "rule": "in-process: one evaluation = one reader call of a TLC-generated call sequence on a concrete byte layout "
                    "and block size (distinct by abstract file, sequence, layout, block size); end-to-end: one run of the binary "
                    "(non-trivial = at least one line crosses a block boundary at that block size)",
            "samples": samples + e2e_samples, "inproc_calls": ncalls, "e2e_runs": len(runs),
            "blockzero_spec_vs_code_agree": bz_agree, "blockzero_spec_vs_code_compared": bz_total,
            "checker_cmd": r.cmd, "exhaustive": False,
        }
        rep.assumptions = ["continuation lines never parse as timestamps", "timestamps are ISO-8601 at the line start",
                           "SyslineReader/LineReader are driven from block size 1; the CLI from 64",
                           "abstract files up to MaxLines lines; byte layouts sampled per abstract cache state"]
    return rep.finish()
