"""C08: accounting-record files -- every non-null record once, in (time, file offset) order, own fields only.

Spec: Ordered.tla (FixedStruct machine vs declarative Emit).  The map-key design parameter KEY is measured from
the real reader on a two-record tie probe; TLC checks the machine for that KEY and enumerates every record
sequence (<= MaxN records over 3 time values, duplicates, nulls) x every window together with Emit; every such
instance is rendered as a real Linux utmp file (C layout, distinctive field values per record), stored plain or
compressed, and run through the real binary at a drawn block size; stdout is parsed back into records."""
import json
import os
import random
import re
import time
from concurrent.futures import ThreadPoolExecutor

from . import common, gen
from .common import Reporter, Scratch, ToolError, log, tlc, write_cfg
from .e2e import Case

T0 = gen.BASE
import struct

# abstract time value t in 1..3 -> seconds; the acct_v3 layout stores an unsigned 32-bit time: its largest value is
# placed beyond 2^31 (2038) so that signed/unsigned handling of the sort key is exercised
SECS = {"utmp": {1: T0 + 10, 2: T0 + 20, 3: T0 + 30}, "lastlog": {1: T0 + 10, 2: T0 + 20, 3: T0 + 30},
        "acct": {1: T0 + 10, 2: T0 + 20, 3: 2**31 + 5}}


# field values that differ from record to record: the remote address (none, IPv4, IPv6 in several zero patterns), the
# exit status pair, the record type
ADDRS = [b"\0" * 16, bytes([192, 168, 1, 20]) + b"\0" * 12, b"\0" * 15 + b"\x01", bytes.fromhex("fe80000000000000" "0000000000000001"),
         bytes.fromhex("20010db8000000000000000000000053"), bytes.fromhex("20010db885a3000000008a2e03707334"),
         b"\0" * 4 + b"\x01\0\0\0" + b"\0" * 8, b"\0" * 8 + b"\x02\0\0\0" + b"\0" * 4, bytes([10, 0, 0, 255]) + b"\0" * 12,
         bytes([255, 255, 255, 255]) + b"\0" * 8 + bytes([0, 0, 0, 128])]
# (a type outside the named range is printed as its number: negative, and beyond the table)
UT_TYPES = [(7, b"USER_PROCESS"), (7, b"USER_PROCESS"), (8, b"DEAD_PROCESS"), (6, b"LOGIN_PROCESS"), (7, b"USER_PROCESS"), (5, b"INIT_PROCESS"),
            (7, b"USER_PROCESS"), (-1, b"-1"), (7, b"USER_PROCESS"), (200, b"200"), (7, b"USER_PROCESS")]


def utmp_fields(i):
    """(ut_type, type name, (e_termination, e_exit), address bytes, address as printed) of synthetic record i"""
    ty, tyname = UT_TYPES[i % len(UT_TYPES)]
    ex = ((i * 3) % 5, (i * 7) % 256) if ty == 8 else (0, 0)
    addr = ADDRS[i % len(ADDRS)]
    w = struct.unpack("<4I", addr)
    if w[1] == w[2] == w[3] == 0:
        text = b"ut_addr %d.%d.%d.%d" % tuple(addr[:4])
    else:
        text = b"ut_addr_v6 %X:%X:%X:%X" % w
    return ty, tyname, ex, addr, text


def rec_bytes(i, t, usec=0, layout="utmp", null=b"\0"):
    if layout == "utmp":
        if t == 0:
            return null * gen.UTMP_SZ
        ty, _, ex, addr, _ = utmp_fields(i)
        return gen.utmp_record(ty, 1000 + i, b"pts/%d" % i, b"t%d" % (i % 100), b"user%d" % i, b"host%d.example" % i,
                               SECS["utmp"].get(t, T0 + 10 * t), usec, session=500 + i, exit_=ex, addr=addr)
    if layout == "acct":
        if t == 0:
            return null * 64
        comm = (b"cmd%d" % i)[:16]
        return struct.pack("<BBHIIIIIIf8H", 0x02, 3, 0, 0, 1000 + i, 2000 + i, 3000 + i, 1, SECS["acct"].get(t, T0 + 10 * t), 1.5,
                           *([0] * 8)) + comm + b"\0" * (16 - len(comm))
    if layout == "lastlog":
        if t == 0:
            return null * 292
        line, host = b"pts/%d" % i, b"host%d.example" % i
        return struct.pack("<i", SECS["lastlog"].get(t, T0 + 10 * t)) + line + b"\0" * (32 - len(line)) + host + b"\0" * (256 - len(host))
    raise ValueError(layout)


FILENAME = {"utmp": "wtmp", "acct": "pacct", "lastlog": "lastlog"}
LINE_RE = {
    "utmp": re.compile(rb"^ut_type (-?\w+) ut_pid (\d+) ut_line '([^']*)' ut_id '([^']*)' ut_user '([^']*)' "
                       rb"ut_host '([^']*)' e_termination (\d+) e_exit (\d+) ut_session '(\d+)' ut_xtime (\d+)\.(\d+) (ut_addr(?:_v6)? \S+)$"),
    "acct": re.compile(rb"^ac_flag 0b0010 \(ASU\) ac_version 3 ac_tty 0 ac_exitcode 0 ac_uid (\d+) ac_gid (\d+) ac_pid (\d+) ac_ppid 1 "
                       rb"ac_btime (\d+) ac_etime 1\.5 ac_utime 0 ac_stime 0 ac_mem 0 ac_io 0 ac_rw 0 ac_minflt 0 ac_majflt 0 ac_swaps 0 "
                       rb"ac_comm '([^']*)'$"),
    "lastlog": re.compile(rb"^ll_time (\d+) ll_line 'pts/(\d+)' ll_host 'host(\d+)\.example'$"),
}


def line_index(layout, m):
    """record index named by a parsed line, or None when fields of different records are mixed"""
    if layout == "utmp":
        i = int(m.group(2)) - 1000
        _, tyname, ex, _, atext = utmp_fields(i)
        ok = (m.group(1), m.group(3), m.group(4), m.group(5), m.group(6), int(m.group(7)), int(m.group(8)), int(m.group(9)), m.group(12)) == \
             (tyname, b"pts/%d" % i, b"t%d" % (i % 100), b"user%d" % i, b"host%d.example" % i, ex[0], ex[1], 500 + i, atext)
    elif layout == "acct":
        i = int(m.group(1)) - 1000
        ok = (int(m.group(2)), int(m.group(3)), m.group(5)) == (2000 + i, 3000 + i, b"cmd%d" % i)
    else:
        i = int(m.group(2))
        ok = int(m.group(3)) == i
    return i if ok else None


def line_time(layout, m):
    """(seconds, microseconds or None) printed on a parsed line"""
    if layout == "utmp":
        return int(m.group(10)), int(m.group(11))
    if layout == "acct":
        return int(m.group(4)), None
    return int(m.group(1)), None


def parse_records(out, layout="utmp", times_out=None):
    """stdout -> list of record indices, or None with a reason"""
    idxs = []
    extra = []
    lines = out.split(b"\n")
    if lines and lines[-1] == b"":
        lines.pop()
    for ln in lines:
        core = ln.lstrip(b"\0")
        if core != ln:
            extra.append("NUL")
        if not core:
            continue
        m = LINE_RE[layout].match(core)
        if not m:
            return None, "unparsable line %r" % ln[:120]
        i = line_index(layout, m)
        if i is None:
            return None, "a line does not show its record's own field values (fields of different records, or a field rendered wrongly): %r" % ln[:160]
        idxs.append(i)
        if times_out is not None:
            times_out.append((i,) + line_time(layout, m))
    if out.endswith(b"\0"):
        extra.append("NUL")
    return idxs, extra


def measure_key(sc):
    """Probe: two records with equal times.  Both printed => keyed by (time, offset)."""
    blob = rec_bytes(1, 1) + rec_bytes(2, 1)
    c = Case({"probe.utmp": blob}, ["--color", "never", "probe.utmp"])
    r = c.run(os.path.join(sc, "probe"))
    # (only which records appear matters here; what each line shows is examined on the instances)
    idxs = [int(x) - 1000 for x in re.findall(rb"ut_pid (\d+) ", r.out)]
    if not idxs:
        raise ToolError("cannot parse utmp output of the probe: %r" % r.out[:200])
    return "time_fo" if sorted(idxs) == [1, 2] else "time"


def cli(t, usec=0, layout="utmp"):
    return gen.fmt_ts(SECS[layout][t], usec * 1000, None, 6)


FOREIGN = ["NetBSD9.3/x86_32/wtmpx", "NetBSD9.3/x86_32/utmpx", "NetBSD9.3/x86_64/wtmpx", "NetBSD9.3/x86_64/utmpx", "NetBSD9.3/x86_32/acct",
           "NetBSD9.3/x86_64/acct", "NetBSD9.3/x86_32/wtmp", "NetBSD9.3/x86_64/wtmp", "OpenBSD7.2/x86_32/wtmp", "OpenBSD7.4/x86_64/wtmp",
           "Ubuntu16/x86_32/wtmp", "Debian11/armv6l_ARMv6/wtmp", "Debian11/aarch64_ARM64/wtmp", "Debian13/RISC-V/wtmp", "CentOS7/x86_64/wtmp",
           "CentOS9/x86_64/pacct", "Debian11/armv6l_ARMv6/pacct", "OpenSUSE15/wtmp", "FreeBSD14.0/x86_64/utx.log"]


FOREIGN_MEASURABLE = ["NetBSD9.3/x86_32/wtmpx", "NetBSD9.3/x86_32/utmpx", "NetBSD9.3/x86_64/wtmpx", "NetBSD9.3/x86_64/utmpx", "NetBSD9.3/x86_32/acct",
                      "NetBSD9.3/x86_32/wtmp", "NetBSD9.3/x86_64/wtmp", "OpenBSD7.2/x86_32/wtmp", "OpenBSD7.4/x86_64/wtmp", "Ubuntu16/x86_32/wtmp",
                      "Debian11/armv6l_ARMv6/wtmp", "Debian11/aarch64_ARM64/wtmp", "Debian13/RISC-V/wtmp", "CentOS7/x86_64/wtmp",
                      "CentOS9/x86_64/pacct", "Debian11/armv6l_ARMv6/pacct", "OpenSUSE15/wtmp"]


def foreign_layouts(sc, rep, rng, tier, windowed=False, merge=False):
    import math
    done = []
    done_names = set()
    for si, rel in enumerate(FOREIGN + [None]):
        if rel is None:
            # (samples that go through on the unchanged tree: one that no longer does has stopped being examined)
            for miss in sorted(set(FOREIGN_MEASURABLE) - done_names):
                if os.path.exists(os.path.join(common.REPO, "logs", miss)) and os.path.getsize(os.path.join(common.REPO, "logs", miss)) > 0:
                    rep.note_drift("foreign-layout sample %s could not be re-timed and examined (layout not located, or its control run did not print)" % miss)
            break
        src = os.path.join(common.REPO, "logs", rel)
        if not os.path.exists(src) or os.path.getsize(src) == 0:
            continue
        data = open(src, "rb").read()
        name = os.path.basename(rel)
        d = os.path.join(sc, "foreign", "s%d" % si)
        os.makedirs(d)
        with open(os.path.join(d, name), "wb") as f:
            f.write(data)
        r0 = common.run_s4(["--color", "never", name], cwd=d, trace=True, timeout=60)
        ins = [(e["fo"], e["ts"], e["tu"]) for e in r0.trace if e["ev"] == "FsInsert"]
        # the shipped sample as it is: every record the reader takes up is printed, once
        np0 = sum(1 for e in r0.trace if e["ev"] == "Print")
        if not r0.crashed and ins and np0 != len(ins):
            rep.violation("foreign:sample", "%s as shipped: %d records taken up by the reader, %d printed" % (rel, len(ins), np0),
                          {"kind": "foreign", "sample": rel, "records": len(ins), "printed": np0})
        if r0.crashed or len(ins) < 3 or len({t for _, t, _ in ins}) < 2:
            continue
        recsz = 0
        for fo, _, _ in ins:
            recsz = math.gcd(recsz, fo)
        recsz = math.gcd(recsz, len(data)) if recsz else 0
        if recsz < 8:
            continue
        le32 = lambda b, o: int.from_bytes(b[o:o + 4], "little")
        cand = [o for o in range(recsz - 3) if all(le32(data, fo + o) == (ts & 0xFFFFFFFF) for fo, ts, _ in ins)]
        if len(cand) != 1:
            continue
        o_s = cand[0]
        o_u = None
        if any(tu for _, _, tu in ins):
            cu = [o for o in range(recsz - 3) if o != o_s and all(le32(data, fo + o) == tu for fo, _, tu in ins)]
            if len(cu) != 1:
                continue
            o_u = cu[0]
        k = min(6, len(ins))
        recs = [bytearray(data[fo:fo + recsz]) for fo, _, _ in ins[:k]]
        T = min(ts for _, ts, _ in ins)
        secs = [T + 5, T + 5, T + 1, T + 5, T + 3, T + 5][:k]
        usecs = ([300, 100, 0, 200, 7, 100] if o_u is not None else [0] * 6)[:k]
        # control: the same records with their own times must all be printed (the layout is still recognised)
        with open(os.path.join(d, name), "wb") as f:
            f.write(b"".join(bytes(r_) for r_ in recs))
        rc_ = common.run_s4(["--color", "never", name], cwd=d, trace=True, timeout=60)
        npc = sum(1 for e in rc_.trace if e["ev"] == "Print")
        nic = sum(1 for e in rc_.trace if e["ev"] == "FsInsert")
        if not rc_.crashed and nic == k and npc != k:
            rep.violation("foreign:sample", "%s, its first %d records: all taken up by the reader, %d printed" % (rel, k, npc),
                          {"kind": "foreign", "sample": rel, "records": k, "printed": npc})
        if rc_.crashed or npc != k:
            continue
        for r_, s_, u_ in zip(recs, secs, usecs):
            r_[o_s:o_s + 4] = (s_ & 0xFFFFFFFF).to_bytes(4, "little")
            if o_u is not None:
                r_[o_u:o_u + 4] = u_.to_bytes(4, "little")
        with open(os.path.join(d, name), "wb") as f:
            f.write(b"".join(bytes(r_) for r_ in recs))
        B = rng.choice([64, 512, 65536])
        rr = common.run_s4(["--color", "never", "--blocksz", str(B), name], cwd=d, trace=True, timeout=60)
        got = [(e["ds"], e["dn"]) for e in rr.trace if e["ev"] == "Print"]
        want = [(s_, u_ * 1000) for s_, u_, _ in sorted(zip(secs, usecs, range(k)))]
        rec = {"kind": "foreign", "sample": rel, "record_size": recsz, "seconds_at": o_s, "microseconds_at": o_u, "blocksz": B,
               "times": list(zip(secs, usecs)), "printed": got}
        nlines = len([ln for ln in rr.out.replace(b"\0", b"").split(b"\n") if ln])
        if rr.crashed:
            rep.violation("foreign:crash", "rc=%s on re-timed records of %s" % (rr.rc, rel), rec)
        elif sorted(got) != sorted(want) or nlines != k:
            rep.violation("foreign:selection", "%s: %d records re-timed, %d lines printed with instants %s" % (rel, k, nlines, got), rec)
        elif got != want:
            rep.violation("foreign:order", "%s (record size %d): records printed with instants %s, time order is %s" % (rel, recsz, got, want), rec)
        nfields = 0
        if not rr.crashed and got == want and nlines == k:
            # "each printed line shows that record's own field values": every quoted text field of the j-th printed line is
            # found in the bytes of the record that comes j-th in time order, whatever the layout
            order = [i_ for _, _, i_ in sorted(zip(secs, usecs, range(k)))]
            plines = [ln for ln in rr.out.replace(b"\0", b"").split(b"\n") if ln]
            for j_, ln in enumerate(plines):
                raw = bytes(recs[order[j_]])
                for fld in re.findall(rb"'([\x21-\x26\x28-\x7e][\x20-\x26\x28-\x7e]*)'", ln):
                    if len(fld) < 3 or not re.search(rb"[A-Za-z]", fld):
                        continue          # (numbers are quoted too: ut_session '0')
                    nfields += 1
                    if fld not in raw:
                        rep.violation("foreign:fields", "%s: line %d shows the text field %r, which is not in the bytes of the record printed there"
                                      % (rel, j_, fld), dict(rec, line=ln[:300].decode(errors="replace")))
                        break
        nwin = 0
        if windowed and not rr.crashed and got == want:
            # windows on, between and around the re-timed records: bounds on a record's exact instant, on the whole second
            # that holds records with microseconds, one microsecond either side
            inst = sorted(set(want))
            pts = []
            for (s_, n_) in inst:
                pts += [(s_, n_), (s_, 0), (s_, max(0, n_ - 1000)), (s_, n_ + 1000)]
            pts = list(dict.fromkeys(pts))
            wins = [(p_, None) for p_ in pts] + [(None, p_) for p_ in pts] + [(p_, p_) for p_ in inst]
            wins += [tuple(sorted(rng.sample(pts, 2))) for _ in range(4)]
            if tier == "quick":
                wins = rng.sample(wins, min(len(wins), 10))
            for (a, b) in wins:
                argv = ["--color", "never", "--blocksz", str(B)]
                if a is not None:
                    argv += ["-a", gen.fmt_ts(a[0], a[1], 0, 6)]
                if b is not None:
                    argv += ["-b", gen.fmt_ts(b[0], b[1], 0, 6)]
                rw = common.run_s4(argv + [name], cwd=d, trace=True, timeout=60)
                gotw = [(e["ds"], e["dn"]) for e in rw.trace if e["ev"] == "Print"]
                wantw = [x for x in want if (a is None or x >= a) and (b is None or x <= b)]
                nwin += 1
                if rw.crashed or gotw != wantw:
                    rep.violation("foreign:window", "%s re-timed, window [%s, %s]: printed %s, the window holds %s (rc=%s)" % (rel, a, b, gotw, wantw, rw.rc),
                                  dict(rec, after=a, before=b))
        nmerge = 0
        if merge and o_u is not None and not rr.crashed and got == want:
            # two files of this layout whose records fall into the same seconds, microseconds apart (and some equal): the merge
            # goes by the full time values, equal ones in the order the files were named
            msecs = [T + 1, T + 1, T + 2, T + 2, T + 3, T + 3][:k]
            mus = {"a": [900000, 900001, 500000, 500000, 100, 999999][:k], "b": [100000, 900000, 250000, 500000, 200, 5][:k]}
            for sub in ("a", "b"):
                os.makedirs(os.path.join(d, sub), exist_ok=True)
                rs_ = [bytearray(r_) for r_ in recs]
                for r_, s_, u_ in zip(rs_, msecs, mus[sub]):
                    r_[o_s:o_s + 4] = (s_ & 0xFFFFFFFF).to_bytes(4, "little")
                    r_[o_u:o_u + 4] = u_.to_bytes(4, "little")
                # (each file stores its records in time order)
                rs_ = [r_ for _, _, r_ in sorted(zip(zip(msecs, mus[sub]), range(k), rs_), key=lambda x: (x[0], x[1]))]
                with open(os.path.join(d, sub, name), "wb") as f:
                    f.write(b"".join(bytes(r_) for r_ in rs_))
            for order in (("a", "b"), ("b", "a")):
                rm = common.run_s4(["--color", "never"] + [os.path.join(o_, name) for o_ in order], cwd=d, trace=True, timeout=60)
                gotm = [(e["w"], e["ds"], e["dn"]) for e in rm.trace if e["ev"] == "Print"]
                allm = sorted([((s_, u_ * 1000), w_, j_) for w_, o_ in enumerate(order) for j_, (s_, u_) in enumerate(sorted(zip(msecs, mus[o_])))])
                wantm = [(w_, key_[0], key_[1]) for key_, w_, j_ in allm]
                nmerge += 1
                if rm.crashed or gotm != wantm:
                    rep.violation("foreign:merge", "%s: two files of this layout named %s: printed (source, seconds, nanoseconds) %s, the merge by their "
                                  "time values is %s" % (rel, "/".join(order), gotm[:8], wantm[:8]), dict(rec, order=list(order)))
        done_names.add(rel)
        done.append({"sample": rel, "record_size": recsz, "seconds_at": o_s, "microseconds_at": o_u, "records": k, "windows": nwin, "text_fields_checked": nfields, "merges": nmerge})
    return done


def run(pid, tier, seed):
    rep = Reporter(pid, tier, seed, "model_checking")
    rng = random.Random(seed * 8191 + 8)
    common.build_s4()
    common.build_harness(["mk_lz4"])
    with Scratch(pid) as sc:
        key = measure_key(sc)
        maxn = 3 if tier == "quick" else 4
        consts = {"MaxN": maxn, "Times": {1, 2, 3}, "KEY": key, "JBEFORE": "inclusive"}
        cfg = write_cfg(os.path.join(sc, "tlc", "ord.cfg"), consts, spec="Spec", invariants=["DumpFS"])
        # the dump invariant prints every instance with the prescribed emission, then the correctness invariants
        cfg2 = write_cfg(os.path.join(sc, "tlc", "ord2.cfg"), consts, spec="Spec",
                         invariants=["FixedStructCorrect", "FixedStructOnce"])
        r2 = tlc("Ordered", cfg2, os.path.join(sc, "tlc"), workers=6, timeout=900)
        predicted = None
        if r2.violated:
            predicted = r2.violated
        else:
            common.tlc_must_pass(r2, "Ordered")
        r = tlc("OrderedDump", cfg, os.path.join(sc, "tlc"), workers=1, timeout=900)
        common.tlc_must_pass(r, "OrderedDump")
        insts = common.tla_prints(r.output, "INST")
        if not insts:
            raise ToolError("OrderedDump produced no instances")
        if tier == "quick" and len(insts) > 500:
            insts = rng.sample(insts, 500)
        conts = ["plain", "gz", "bz2", "xz", "lz4", "tar"]
        # longer files than the model's bound, with null slots at the start, among the first records and later, ties and
        # records out of time order (the prescribed emission is the same declarative sort)
        for recs_ in ([2, 0, 1, 3, 2, 1, 3], [0, 1, 2, 3, 1], [1, 1, 0, 2, 2, 3, 0, 3], [3, 2, 0, 0, 1, 2, 3, 1, 2], [1, 0, 0, 0, 2, 3, 3, 1, 2, 0, 1]):
            for (A_, B_) in ((0, 99), (2, 99), (0, 2)):
                emit_ = [i + 1 for _, i in sorted((t, i) for i, t in enumerate(recs_) if t and (A_ == 0 or t >= A_) and (B_ == 99 or t <= B_))]
                insts.append(("INST", list(recs_), A_, B_, emit_))
        cases = []
        for k, (_, recs, A, B, emit) in enumerate(insts):
            if not recs or all(t == 0 for t in recs):
                continue
            layout = ("utmp", "acct", "lastlog")[k % 3]
            us = (lambda t: 7 if (t == 2 and layout == "utmp") else 0)
            # a null record is a slot of all-zero bytes or of all-0xFF bytes (both are skipped by the reader)
            nulls = [rng.choice([b"\0", b"\xff"]) for _ in recs]
            blob = b"".join(rec_bytes(i + 1, t, usec=us(t), layout=layout, null=nulls[i]) for i, t in enumerate(recs))
            cont = rng.choice(conts)
            name = FILENAME[layout]
            if cont == "plain":
                files, arg = {name: blob}, name
            elif cont == "gz":
                files, arg = {name + ".gz": gen.gz_bytes(blob)}, name + ".gz"
            elif cont == "bz2":
                files, arg = {name + ".bz2": gen.bz2_bytes(blob)}, name + ".bz2"
            elif cont == "xz":
                files, arg = {name + ".xz": gen.xz_bytes(blob)}, name + ".xz"
            elif cont == "lz4":
                files, arg = {name + ".lz4": gen.lz4_bytes(blob)}, name + ".lz4"
            else:
                files, arg = {"a.tar": gen.tar_bytes([(name, blob)])}, "a.tar"
            argv = ["--color", "never", "--blocksz", str(rng.choice([64, 100, 383, 384, 385, 768, 4096, 65536]))]
            # the window's instants spelled zone-less (-t +00:00) or with a numeric offset written on the values
            woff = (None, None, 60, -480, 330)[k % 5]
            if A != 0:
                argv += ["-a", gen.fmt_ts(SECS[layout][A], us(A) * 1000, woff, 6)]
            if B != 99:
                argv += ["-b", gen.fmt_ts(SECS[layout][B], us(B) * 1000, woff, 6)]
            cases.append((Case(files, argv + [arg], None, note={"recs": recs, "A": A, "B": B, "emit": emit,
                                                               "container": cont, "layout": layout}), recs, emit))

        def do(ic):
            i, (case, recs, emit) = ic
            return case.run(os.path.join(sc, "e2e", "c%d" % i), trace=True)

        t0 = time.time()
        with ThreadPoolExecutor(max_workers=10) as ex:
            runs = list(ex.map(do, list(enumerate(cases))))
        log("C08: %d runs in %.1fs" % (len(runs), time.time() - t0))
        nontriv = 0
        samples = []
        reproduced = set()
        for (case, recs, emit), rr in zip(cases, runs):
            ties = len(set(t for t in recs if t)) < len([t for t in recs if t])
            if ties or 0 in recs:
                nontriv += 1
            if rr.crashed:
                rep.violation("crash", "rc=%s %r" % (rr.rc, rr.err[-200:]), case.replay_record(rr))
                continue
            ptimes = []
            idxs, extra = parse_records(rr.out, case.note["layout"], ptimes)
            if idxs is None:
                rep.violation("unparsable-output:%s" % case.note["layout"], extra, case.replay_record(rr))
                continue
            lay_ = case.note["layout"]
            badt = [(i_, s_, u_) for (i_, s_, u_) in ptimes if 1 <= i_ <= len(recs) and
                    (s_ != SECS[lay_].get(recs[i_ - 1], T0 + 10 * recs[i_ - 1]) or (u_ is not None and u_ != (7 if recs[i_ - 1] == 2 else 0)))]
            if badt:
                rep.violation("wrong-time-field:%s" % lay_, "record %d is printed with time %s.%s, not its own" % badt[0], case.replay_record(rr))
                continue
            if not emit and idxs == [] and (rr.rc != 0 or b"ERROR" in rr.err):
                # (C03's clause, for record files: an empty selection prints nothing and is not an error)
                rep.violation("empty-is-error:%s" % lay_, "%s records %s, window [%s,%s] holds none of them, and the run calls it an error (rc=%s, %r)"
                              % (lay_, recs, case.note["A"], case.note["B"], rr.rc, rr.err[:160]), case.replay_record(rr))
                continue
            if idxs != list(emit):
                lost = sorted(set(emit) - set(idxs))
                if lost and sorted(idxs) == sorted(set(emit) - set(lost)) and ties:
                    sig = "ties-lost"
                elif sorted(idxs) == sorted(emit):
                    sig = "order"
                else:
                    sig = "selection"
                reproduced.add(sig)
                rep.violation(sig, "%s records %s (times %s, window [%s,%s], %s): printed %s, Emit = %s"
                              % (case.note["layout"], list(range(1, len(recs) + 1)), recs, case.note["A"], case.note["B"],
                                 case.note["container"], idxs, list(emit)), case.replay_record(rr))
            elif extra:
                rep.violation("nul-after-record", "a NUL byte is written to stdout after each record's newline",
                              case.replay_record(rr))
            elif len(samples) < 3 and ties:
                samples.append({"times": recs, "A": case.note["A"], "B": case.note["B"], "emit": list(emit),
                                "container": case.note["container"], "argv": case.argv})
        # I->S: the map operations of every run (FsBegin / FsInsert / FsAt hook events) against TraceOrdered.tla: built in
        # file order, walked by least (time, offset) key, every call naming the next least entry
        trecs = []
        walks = 0
        for (case, recs, emit), rr in zip(cases, runs):
            if rr.crashed:
                continue
            evs = [e for e in rr.trace if e.get("ev") in ("FsBegin", "FsInsert", "FsAt")]
            if not evs:
                continue
            ranks = {k_: j + 1 for j, k_ in enumerate(sorted({(e["ts"], e["tu"]) for e in evs if e["ev"] == "FsInsert"}))}
            for e in evs:
                trecs.append({"ev": e["ev"], "fo": e.get("fo", 0), "r": ranks.get((e.get("ts"), e.get("tu")), 0), "next": e.get("next", 0),
                              "left": e.get("left", 0), "size": e.get("size", 0)})
            walks += 1
        walks_ok = 0
        if not trecs:
            rep.note_drift("no FixedStruct map events recorded (hooks missing?)")
        else:
            tdir = os.path.join(sc, "tv")
            os.makedirs(tdir, exist_ok=True)
            tp = os.path.join(tdir, "fs.ndjson")
            with open(tp, "w") as f:
                for x in trecs:
                    f.write(json.dumps(x) + "\n")
            tcfg = write_cfg(os.path.join(tdir, "tord.cfg"), {"MaxN": 1, "Times": {1}, "KEY": "time_fo", "JBEFORE": "inclusive"}, spec="TSpec",
                             constraint="Progress", postcondition="Accepted")
            tr = tlc("TraceOrdered", tcfg, tdir, workers=1, timeout=900, env={"TRACE": tp}, deque=True, java_opts="-Xmx3g")
            if tr.ok:
                walks_ok = walks
            else:
                import re as _re
                m = _re.search(r'"UNMATCHED",\s*(\d+)', tr.output)
                k = int(m.group(1)) if m else 0
                rep.note_drift("FixedStruct map trace not explained by Ordered.tla's machine at record %s: %s" % (k, trecs[k - 1] if 0 < k <= len(trecs) else tr.output[-300:]))
        # ---- layouts of other systems (NetBSD / OpenBSD / 32-bit and other-architecture Linux): the sample files shipped
        # in logs/ are the layout knowledge.  The reader's own FsInsert events on a sample give, per record, its offset and
        # the (seconds, microseconds) it extracted; the bytes holding them are located in the record by value; a few records
        # are then re-timed (same second, microseconds out of order, an earlier and a later second, an exact tie) and the
        # printed instants (Print events, one per stdout line) must come in (seconds, microseconds, offset) order.
        foreign = foreign_layouts(sc, rep, rng, tier)
        if predicted and "ties-lost" not in reproduced and "ties-lost" not in rep.known_hits:
            rep.note_drift("Ordered.tla with measured KEY=%s violates %s but no run reproduced a loss" % (key, predicted))
        rep.coverage = {"states": r.distinct + r2.distinct, "transitions": r.generated + r2.generated,
                        "traces_validated_against_impl": walks_ok, "evaluations": len(runs), "distinct_nontrivial": nontriv,
                        "rule": "every initial state of Ordered.tla (record-time sequence with nulls, window) is one instance, "
                                "rendered as a Linux x86_64 utmp file; non-trivial = equal times or null records present",
                        "samples": samples or [{"note": "no tie sample passed"}], "key_measured": key, "foreign_layout_samples": foreign,
                        "model_prediction": predicted, "exhaustive": tier == "thorough",
                        "checker_cmd": r2.cmd}
        rep.assumptions = ["Linux x86_64 struct utmp (384 bytes), struct acct_v3 (64 bytes, unsigned 32-bit time incl. a value beyond "
                           "2^31) and struct lastlog (292 bytes) synthesised from the C layouts; BSD layouts are exercised only through "
                           "the repository's sample files in C05/C07",
                           "null record = a slot of all-zero or all-0xFF bytes", "rendering of a record line taken from the unchanged tree"]
    return rep.finish()
