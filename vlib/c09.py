"""C09: journal files -- every entry once, in journal order, window on the receive time, fields intact.

Spec: Ordered.tla (Journal machine: seek to the first entry with t >= A, next() until the first entry beyond B)
vs the declarative window {A <= t <= B}; the upper-bound design parameter JBEFORE is measured on the real reader
(bound exactly on an entry's microsecond); TLC checks the machine for all monotone sequences with ties and all
bounds.  Code: ground truth from `journalctl --file F -o json`; for every rendering the Print events (entry
instants, in order) must equal the truth restricted to the window; windows are placed before / between / exactly
on / after actual entry microseconds; `cat` output is compared byte-wise and `export` field-wise with journalctl;
compressed forms must print the same as the plain file."""
import json
import os
import random
import shutil
import subprocess
import time
from concurrent.futures import ThreadPoolExecutor

from . import common, gen
from .common import Reporter, Scratch, ToolError, log, tlc, write_cfg, REPO

OUTPUTS = ["short", "short-precise", "short-iso", "short-iso-precise", "short-full", "short-monotonic", "short-unix",
           "verbose", "export", "cat"]
JOURNALS = {
    "u22x3": ("logs/programs/journal/Ubuntu22-user-1000x3.journal", ["gz", "bz2", "xz", "lz4"], True),
    "rhe91": ("logs/programs/journal/RHE_91_system.journal", ["gz", "xz"], True),
    "suse15": ("logs/OpenSUSE15/journal/f4e4621cbd954e73a519d0ca3e0d82c3/system@29912846da1c4d1d8d50dd155c553bdc-"
               "0000000000005156-00060c85794a2d40.journal", [], False),
    "u16": ("logs/Ubuntu16/6c6ab73d82464b9493892c81fc732b3a/system.journal", [], False),
}


def jctl(path, *args):
    p = subprocess.run(["journalctl", "--file", path, "--no-pager"] + list(args), stdout=subprocess.PIPE,
                       stderr=subprocess.PIPE, env={"PATH": os.environ.get("PATH", ""), "TZ": "UTC", "LC_ALL": "C"})
    if p.returncode != 0:
        raise ToolError("journalctl failed on %s: %s" % (path, p.stderr[-300:]))
    return p.stdout


def prepare(sc, key):
    rel, forms, emptied = JOURNALS[key]
    d = os.path.join(sc, "j_" + key)
    os.makedirs(d)
    plain = os.path.join(d, key + ".journal")
    if emptied:
        # the plain file is emptied in this sandbox: recover it from its gzip copy
        with open(plain, "wb") as f:
            subprocess.run(["gzip", "-dc", os.path.join(REPO, rel + ".gz")], stdout=f, check=True)
    else:
        shutil.copyfile(os.path.join(REPO, rel), plain)
    for fm in forms:
        shutil.copyfile(os.path.join(REPO, rel + "." + fm), os.path.join(d, key + ".journal." + fm))
    truth = [int(json.loads(l)["__REALTIME_TIMESTAMP"]) for l in jctl(plain, "-o", "json", "--utc").decode().splitlines()]
    # the times a file system or a container records for the file say nothing about the entries in it: forms whose
    # recorded modification time lies a day BEFORE the first entry (gzip header field, tar member header, the files' own)
    old = min(truth) // 10**6 - 86400
    blob = open(plain, "rb").read()
    gen.write(os.path.join(d, key + "-old.journal.gz"), gen.gz_bytes(blob, mtime=old))
    gen.write(os.path.join(d, key + "-old.tar"), gen.tar_bytes([("var/log/journal/" + key + ".journal", blob)], mtime=old))
    # ... and archives that hold the journal under journald's own (long) path: beyond the 100 bytes of a tar name field
    import tarfile
    longp = "var/log/journal/0123456789abcdef0123456789abcdef/system@00061c5e4a8e4b4f9a0b1c2d3e4f5a6b-000000000001b2c3-0005f7a1b2c3d4e5.journal"
    gen.write(os.path.join(d, key + "-long-gnu.tar"), gen.tar_bytes([(longp, blob)], fmt=tarfile.GNU_FORMAT, mtime=old))
    gen.write(os.path.join(d, key + "-long-pax.tar"), gen.tar_bytes([(longp, blob)], fmt=tarfile.PAX_FORMAT, mtime=old))
    for fn in (key + ".journal", key + "-old.journal.gz", key + "-old.tar"):
        os.utime(os.path.join(d, fn), (old, old))
    return d, plain, truth


def form_file(k, fm):
    return {":oldgz": k + "-old.journal.gz", ":oldtar": k + "-old.tar", ":longtar-gnu": k + "-long-gnu.tar",
            ":longtar-pax": k + "-long-pax.tar"}.get(fm, k + ".journal" + fm)


def cli_us(us):
    return gen.fmt_ts(us // 10**6, (us % 10**6) * 1000, None, 6)


def export_entries_ref(blob):
    """journalctl -o export (binary-safe) -> list of entries, each a list of (key, value bytes)"""
    out, cur, i, n = [], [], 0, len(blob)
    while i < n:
        j = blob.index(b"\n", i)
        line = blob[i:j]
        if not line:
            if cur:
                out.append(cur)
                cur = []
            i = j + 1
            continue
        if b"=" in line:
            k, v = line.split(b"=", 1)
            cur.append((k, v))
            i = j + 1
        else:
            ln = int.from_bytes(blob[j + 1:j + 9], "little")
            cur.append((line, blob[j + 9:j + 9 + ln]))
            i = j + 9 + ln + 1
    if cur:
        out.append(cur)
    return out


def export_entries(blob):
    """s4's export rendering -> list of entries (lists of lines); an entry starts at its __CURSOR= line
    (values with embedded newlines are printed raw, so blank lines cannot delimit entries)"""
    out = []
    for ln in blob.split(b"\n"):
        if ln.startswith(b"__CURSOR="):
            out.append([])
        if out:
            out[-1].append(ln)
    return out


def export_diff(mine_lines, ref_fields):
    """fields stored in the entry (per journalctl) vs fields shown by s4; returns (missing, extra)"""
    mine = set(l for l in mine_lines if b"=" in l)
    missing, explained = [], set()
    for k, v in ref_fields:
        if k == b"_BOOT_ID" or k.startswith(b"__"):
            if k.startswith(b"__") and (k + b"=" + v) not in mine and k != b"__SEQNUM" and k != b"__SEQNUM_ID":
                missing.append(k + b"=" + v)
            explained.add(k + b"=" + v)
            continue
        if b"\n" not in v and all(32 <= c < 127 or c >= 128 for c in v):
            if (k + b"=" + v) not in mine:
                missing.append(k + b"=" + v)
            explained.add(k + b"=" + v)
        else:
            # multi-line / binary value: the key must be shown, its first line must match
            first = v.split(b"\n", 1)[0]
            hit = [l for l in mine if l.startswith(k + b"=")]
            if not hit:
                missing.append(k + b"=<binary>")
            explained.update(hit)
            explained.add(k + b"=" + first)
    extra = [l for l in mine if l not in explained and not l.startswith(b"_BOOT_ID=")]
    return missing, extra


def measure_jbefore(d, name, truth):
    """-b exactly on the first entry's microsecond: printed => inclusive"""
    rr = common.run_s4(["--color", "never", "-b", cli_us(truth[0]), name], cwd=d, trace=True, timeout=120)
    n = sum(1 for e in rr.trace if e["ev"] == "Print")
    return "inclusive" if n >= 1 else "exclusive"


def run(pid, tier, seed):
    rep = Reporter(pid, tier, seed, "model_checking")
    rng = random.Random(seed * 2039 + 9)
    common.build_s4()
    with Scratch(pid) as sc:
        # (u16: the one shipped journal with entries that store the same field name more than once)
        keys = ["u22x3", "rhe91", "u16"] if tier == "quick" else ["u22x3", "rhe91", "suse15", "u16"]
        prepared = {k: prepare(sc, k) for k in keys}
        d0, plain0, truth0 = prepared["u22x3"]
        jbefore = measure_jbefore(d0, "u22x3.journal", truth0)
        consts = {"MaxN": 4 if tier == "quick" else 5, "Times": {1, 2, 3}, "KEY": "time_fo", "JBEFORE": jbefore}
        cfg = write_cfg(os.path.join(sc, "tlc", "ord.cfg"), consts, spec="Spec", invariants=["JournalCorrect"])
        r = tlc("Ordered", cfg, os.path.join(sc, "tlc"), workers=6, timeout=900)
        predicted = r.violated
        if not r.violated:
            common.tlc_must_pass(r, "Ordered")

        jobs = []
        for k in keys:
            d, plain, truth = prepared[k]
            inst = sorted(set(truth))
            small = len(truth) <= 10
            if small or tier == "thorough":
                pts = inst if small else inst[:: max(1, len(inst) // 40)] + [inst[0], inst[-1]]
            else:
                pts = [inst[0], inst[len(inst) // 2], inst[-1]]
            ties = [t for t in inst if truth.count(t) > 1][:3]
            pts = list(dict.fromkeys(pts + ties))
            wins = [(None, None), (inst[0] - 5_000_000, None), (None, inst[0] - 5_000_000), (inst[-1] + 5_000_000, None)]
            for p_ in pts:
                wins += [(p_, None), (None, p_), (p_, p_), (p_ + 1, None), (None, p_ - 1)]
            outs = OUTPUTS if small else (["short", "export", "cat"] if tier == "quick" else OUTPUTS)
            forms = [""] + ["." + f for f in JOURNALS[k][1]]
            if tier == "quick" and len(forms) > 2:
                forms = ["", rng.choice(forms[1:])]
            forms += [":oldgz", ":oldtar", ":longtar-gnu", ":longtar-pax"] if (tier == "thorough" or small) else \
                     [rng.choice([":oldgz", ":oldtar"]), rng.choice([":longtar-gnu", ":longtar-pax"])]
            for o in outs:
                for fm in forms:
                    ws = wins if (small or o == "short") else wins[:6]
                    if fm and not small:
                        ws = ws[:3]
                    if fm.startswith(":") and not small:
                        ws = [(None, None), (inst[-1], None), (inst[len(inst) // 2], inst[-1]), (None, inst[0])]
                    for (a, b) in ws:
                        jobs.append((k, o, fm, a, b, "+00:00"))
            for tz in ("-08:00", "+05:30"):
                jobs.append((k, "short-iso", "", pts[0], pts[-1], tz))

        def do(ij):
            i, (k, o, fm, a, b, tz) = ij
            d, plain, truth = prepared[k]
            argv = ["--tz-offset=" + tz, "--color", "never", "--journal-output", o]
            # the same instants with different numeric offsets written on the values
            off = (0, 60, -480, 330, 825)[i % 5]
            if a is not None:
                argv += ["-a", gen.fmt_ts(a // 10**6, (a % 10**6) * 1000, off, 6)]
            if b is not None:
                argv += ["-b", gen.fmt_ts(b // 10**6, (b % 10**6) * 1000, off, 6)]
            tmp = os.path.join(sc, "tmp%d" % i)
            os.makedirs(tmp)
            rr = common.run_s4(argv + [form_file(k, fm)], cwd=d, trace=True, tmpdir=tmp, timeout=300, tz_args=False)
            shutil.rmtree(tmp, ignore_errors=True)
            return rr

        t0 = time.time()
        with ThreadPoolExecutor(max_workers=8) as ex:
            runs = list(ex.map(do, list(enumerate(jobs))))
        log("C09: %d runs in %.1fs" % (len(runs), time.time() - t0))
        ref_cat, ref_export = {}, {}
        for k in keys:
            d, plain, truth = prepared[k]
            ref_cat[k] = jctl(plain, "-o", "cat")
            ref_export[k] = export_entries_ref(jctl(plain, "-o", "export", "--utc"))
        on_entry = 0
        samples = []
        plain_out = {}
        reproduced = set()
        for (k, o, fm, a, b, tz), rr in zip(jobs, runs):
            d, plain, truth = prepared[k]
            want = [t for t in truth if (a is None or t >= a) and (b is None or t <= b)]
            if a in truth or b in truth:
                on_entry += 1
            rec = {"kind": "c09", "journal": k, "output": o, "form": fm, "after": a, "before": b, "tz": tz, "rc": rr.rc,
                   "stderr": rr.err[-300:].decode(errors="replace")}
            if rr.crashed:
                rep.violation("crash", "rc=%s" % rr.rc, rec)
                continue
            got = [e["ds"] * 10**6 + e["dn"] // 1000 for e in rr.trace if e["ev"] == "Print"]
            if got != want:
                excl = [t for t in truth if (a is None or t >= a) and (b is None or t < b)]
                if got == excl and b is not None and b in truth:
                    sig = "before-bound-exclusive"
                elif sorted(got) == sorted(want):
                    sig = "order"
                else:
                    sig = "selection"
                reproduced.add(sig)
                rec.update({"got": len(got), "want": len(want)})
                rep.violation(sig, "%s %s%s window [%s, %s]: %d entries printed, %d expected" % (k, o, fm, a, b, len(got), len(want)), rec)
                continue
            if rr.rc != 0:
                rep.violation("exit-status", "exit status %d" % rr.rc, rec)
            if a is None and b is None and tz == "+00:00":
                if not fm:
                    plain_out[(k, o)] = rr.out
                    if o == "cat" and rr.out != ref_cat[k]:
                        rep.violation("cat-differs", "%s: cat rendering differs from journalctl -o cat" % k, rec)
                    if o == "export":
                        mine = export_entries(rr.out)
                        if len(mine) != len(ref_export[k]):
                            rep.violation("export-count", "%s: %d export entries, journalctl has %d" % (k, len(mine), len(ref_export[k])), rec)
                        else:
                            for n, (m, ref) in enumerate(zip(mine, ref_export[k])):
                                missing, extra = export_diff(m, ref)
                                if missing or extra:
                                    rec.update({"entry": n, "missing": [x[:80].decode(errors="replace") for x in missing[:5]],
                                                "extra": [x[:80].decode(errors="replace") for x in extra[:5]]})
                                    rep.violation("export-fields", "%s entry %d: export fields differ from journalctl" % (k, n), rec)
                                    break
                elif (k, o) in plain_out and rr.out != plain_out[(k, o)]:
                    rep.violation("container-differs:%s" % fm, "%s %s: compressed form prints differently from the plain file" % (k, o), rec)
            if len(samples) < 3 and a is not None and b is not None:
                samples.append({"journal": k, "output": o, "form": fm or "plain", "after_us": a, "before_us": b, "selected": len(want)})
        if predicted and "before-bound-exclusive" not in reproduced and "before-bound-exclusive" not in rep.known_hits:
            rep.note_drift("Ordered.tla with measured JBEFORE=%s violates %s, not reproduced" % (jbefore, predicted))
        # two journals as members of one tar, member paths suffix-related, both orders: every entry of each, once
        import tarfile
        bd = os.path.join(sc, "bundle")
        os.makedirs(bd)
        ka, kb = keys[0], keys[1]
        for k in (ka, kb):
            shutil.copyfile(prepared[k][1], os.path.join(bd, k + ".journal"))
        for bi, members in enumerate([[("archive/system.journal", kb), ("system.journal", ka)],
                                      [("system.journal", ka), ("archive/system.journal", kb)]]):
            tname = "b%d.tar" % bi
            with open(os.path.join(bd, tname), "wb") as f:
                f.write(gen.tar_bytes([(mn, open(os.path.join(bd, k + ".journal"), "rb").read()) for mn, k in members], fmt=tarfile.GNU_FORMAT))
            tmpb = os.path.join(bd, "tmp")
            os.makedirs(tmpb, exist_ok=True)
            ra = common.run_s4(["--color", "never", "--journal-output", "export"] + [k + ".journal" for _, k in members], cwd=bd, timeout=300)
            rb = common.run_s4(["--color", "never", "--journal-output", "export", tname], cwd=bd, tmpdir=tmpb, timeout=300)
            na, nb = ra.out.count(b"__CURSOR="), rb.out.count(b"__CURSOR=")
            want_n = len(prepared[ka][2]) + len(prepared[kb][2])
            if rb.crashed or ra.out != rb.out or nb != want_n:
                rep.violation("tar-bundle", "tar of %s: %d entries printed (plain files: %d, journalctl: %d)%s"
                              % ([m[0] for m in members], nb, na, want_n, "" if ra.out != rb.out else " -- same bytes"),
                              {"kind": "bundle", "members": members, "rc": rb.rc})
        # a journal in an LZ4 frame whose blocks end early (a streaming writer): every entry, once
        common.build_harness(["mk_lz4"])
        for k in (ka, kb):
            for fe in ([70001] if tier == "quick" else [1000, 70001, 100000]):
                fname = "odd%d_%s.journal.lz4" % (fe, k)
                with open(os.path.join(bd, fname), "wb") as f:
                    f.write(gen.lz4_bytes(open(os.path.join(bd, k + ".journal"), "rb").read(), 5, True, False, False, flush_every=fe))
                ra = common.run_s4(["--color", "never", "--journal-output", "export", k + ".journal"], cwd=bd, timeout=300)
                rb = common.run_s4(["--color", "never", "--journal-output", "export", fname], cwd=bd, tmpdir=tmpb, timeout=300)
                nb = rb.out.count(b"__CURSOR=")
                if rb.crashed or ra.out != rb.out or nb != len(prepared[k][2]):
                    rep.violation("lz4-flush", "%s in an LZ4 frame with blocks of %d bytes: %d entries printed, journalctl has %d"
                                  % (k, fe, nb, len(prepared[k][2])), {"kind": "oddlz4", "journal": k, "flush_every": fe, "rc": rb.rc})
                os.remove(os.path.join(bd, fname))
        rep.coverage = {"states": r.distinct, "transitions": r.generated, "traces_validated_against_impl": len(runs),
                        "evaluations": len(runs), "distinct_nontrivial": on_entry,
                        "rule": "one evaluation = one run on one journal (entries: %s) with one rendering, window, container and "
                                "--tz-offset; non-trivial = a bound exactly equal to an entry's receive microsecond"
                                % {k: len(prepared[k][2]) for k in keys},
                        "samples": samples, "jbefore_measured": jbefore, "model_prediction": predicted,
                        "exhaustive": False, "checker_cmd": r.cmd}
        rep.assumptions = ["journalctl of the sandbox (libsystemd) is the independent reader", "journal enumeration order is "
                           "receive-time order for the available files (checked: truth lists are monotone or the order is taken as is)",
                           "export comparison is field-wise on text fields; _BOOT_ID, which newer journalctl prints in the header, is "
                           "not required"]
    return rep.finish()
