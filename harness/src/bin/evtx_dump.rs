//! evtx_dump <file.evtx>: independent listing of (file index, EventRecordID, timestamp micros) with the evtx crate,
//! one JSON object per line in the order the parser yields records (single-threaded).
use evtx::{EvtxParser, ParserSettings};
fn main() {
    let path = std::env::args().nth(1).expect("path");
    let settings = ParserSettings::new().num_threads(1);
    let mut parser = EvtxParser::from_path(&path).expect("open").with_configuration(settings);
    let mut idx: u64 = 0;
    for rec in parser.records() {
        match rec {
            Ok(r) => {
                let ts = r.timestamp;
                println!(
                    "{{\"idx\":{},\"id\":{},\"secs\":{},\"nanos\":{}}}",
                    idx,
                    r.event_record_id,
                    ts.timestamp(),
                    ts.timestamp_subsec_nanos()
                );
            }
            Err(e) => {
                println!("{{\"idx\":{},\"err\":\"{}\"}}", idx, e.to_string().replace('"', "'"));
            }
        }
        idx += 1;
    }
}
