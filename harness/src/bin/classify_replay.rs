//! classify_replay: one JSON object per stdin line {"hex": "<file name bytes>", "text": bool}
//! -> {"r": "<kind>", "a": "<container>"} using s4lib's path_to_filetype (name only, no file access).
//! With {"walk": "<dir or path>", "text": bool} -> process_path results in order.
use std::ffi::OsString;
use std::io::{BufRead, Write};
use std::os::unix::ffi::OsStringExt;
use std::panic::{catch_unwind, AssertUnwindSafe};
use std::path::PathBuf;

use s4lib::common::{FileType, FileTypeArchive, FileTypeFixedStruct};
use s4lib::readers::filepreprocessor::{path_to_filetype, process_path, PathToFiletypeResult, ProcessPathResult};
use serde_json::{json, Value};

fn unhex(s: &str) -> Vec<u8> {
    (0..s.len() / 2).map(|i| u8::from_str_radix(&s[2 * i..2 * i + 2], 16).unwrap_or(0)).collect()
}

fn arch(a: &FileTypeArchive) -> &'static str {
    match a {
        FileTypeArchive::Normal => "plain",
        FileTypeArchive::Bz2 => "bz2",
        FileTypeArchive::Gz => "gz",
        FileTypeArchive::Lz4 => "lz4",
        FileTypeArchive::Tar => "tar",
        FileTypeArchive::Xz => "xz",
    }
}

fn ft_json(ft: &FileType) -> Value {
    match ft {
        FileType::Evtx { archival_type } => json!({"r":"evtx","a":arch(archival_type)}),
        FileType::Journal { archival_type } => json!({"r":"journal","a":arch(archival_type)}),
        FileType::Text { archival_type, .. } => json!({"r":"text","a":arch(archival_type)}),
        FileType::Unparsable => json!({"r":"unparsable","a":"plain"}),
        FileType::FixedStruct { archival_type, fixedstruct_type } => {
            let k = match fixedstruct_type {
                FileTypeFixedStruct::Acct => "acct",
                FileTypeFixedStruct::AcctV3 => "pacct",
                FileTypeFixedStruct::Lastlog => "lastlog",
                FileTypeFixedStruct::Lastlogx => "lastlogx",
                FileTypeFixedStruct::Utmp => "utmp",
                FileTypeFixedStruct::Utmpx => "utmpx",
            };
            json!({"r":k,"a":arch(archival_type)})
        }
    }
}

fn main() {
    let stdin = std::io::stdin();
    let stdout = std::io::stdout();
    let mut so = stdout.lock();
    for line in stdin.lock().lines() {
        let line = match line { Ok(l) => l, Err(_) => break };
        if line.trim().is_empty() { continue; }
        let v: Value = serde_json::from_str(&line).unwrap_or(json!({}));
        let text = v["text"].as_bool().unwrap_or(true);
        let out = if let Some(w) = v["walk"].as_str() {
            let w = w.to_string();
            match catch_unwind(AssertUnwindSafe(|| process_path(&w, text))) {
                Ok(results) => {
                    let mut arr: Vec<Value> = Vec::new();
                    for r in results.iter() {
                        match r {
                            ProcessPathResult::FileValid(p, ft) => arr.push(json!({"p":p,"ok":true,"ft":ft_json(ft)})),
                            other => arr.push(json!({"p":format!("{:?}", other),"ok":false})),
                        }
                    }
                    json!({"walk": arr})
                }
                Err(_) => json!({"panic": true}),
            }
        } else {
            let bytes = unhex(v["hex"].as_str().unwrap_or(""));
            let os: OsString = OsString::from_vec(bytes);
            let pb = PathBuf::from(os);
            match catch_unwind(AssertUnwindSafe(|| path_to_filetype(&pb, text))) {
                Ok(PathToFiletypeResult::Filetype(ft)) => ft_json(&ft),
                Ok(PathToFiletypeResult::Archive(_, a)) => json!({"r":"tar","a":arch(&a)}),
                Err(_) => json!({"panic": true}),
            }
        };
        let _ = writeln!(so, "{}", out);
    }
}
