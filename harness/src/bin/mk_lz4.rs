//! mk_lz4 <block_id 4..7> <independent 0|1> <content_checksum 0|1> <content_size 0|1> [flush_every] : stdin -> LZ4 frame on stdout
//! flush_every > 0: the encoder is flushed after every that many input bytes, so blocks end early (decoded block
//! lengths that are not the frame's maximum, as a streaming writer produces them)
use std::io::{Read, Write};
fn main() {
    let a: Vec<String> = std::env::args().collect();
    let bid = a.get(1).map(|s| s.as_str()).unwrap_or("4");
    let mut fi = lz4_flex::frame::FrameInfo::new();
    fi.block_size = match bid {
        "4" => lz4_flex::frame::BlockSize::Max64KB,
        "5" => lz4_flex::frame::BlockSize::Max256KB,
        "6" => lz4_flex::frame::BlockSize::Max1MB,
        _ => lz4_flex::frame::BlockSize::Max4MB,
    };
    fi.block_mode = if a.get(2).map(|s| s == "1").unwrap_or(true) {
        lz4_flex::frame::BlockMode::Independent
    } else {
        lz4_flex::frame::BlockMode::Linked
    };
    fi.content_checksum = a.get(3).map(|s| s == "1").unwrap_or(false);
    let mut data = Vec::new();
    std::io::stdin().read_to_end(&mut data).unwrap();
    if a.get(4).map(|s| s == "1").unwrap_or(false) {
        fi.content_size = Some(data.len() as u64);
    }
    let mut enc = lz4_flex::frame::FrameEncoder::with_frame_info(fi, Vec::new());
    let flush_every: usize = a.get(5).and_then(|s| s.parse().ok()).unwrap_or(0);
    if flush_every == 0 {
        enc.write_all(&data).unwrap();
    } else {
        for chunk in data.chunks(flush_every) {
            enc.write_all(chunk).unwrap();
            enc.flush().unwrap();
        }
    }
    let out = enc.finish().unwrap();
    std::io::stdout().write_all(&out).unwrap();
}
