//! mk_lz4 <block_id 4..7> <independent 0|1> <content_checksum 0|1> <content_size 0|1> : stdin -> LZ4 frame on stdout
use std::io::{Read, Write};
fn main() {
    let a: Vec<String> = std::env::args().collect();
    let bid = a.get(1).map(|s| s.as_str()).unwrap_or("4");
    let mut fi = lz4_flex::frame::FrameInfo::new();
    fi.block_size = match bid {
        "4" => lz4_flex::frame::BlockSize::Max64KB,
        "5" => lz4_flex::frame::BlockSize::Max256KB,
        "6" => lz4_flex::frame::BlockSize::Max1MB,
        _ => lz4_flex::frame::BlockSize::Max4MB,
    };
    fi.block_mode = if a.get(2).map(|s| s == "1").unwrap_or(true) {
        lz4_flex::frame::BlockMode::Independent
    } else {
        lz4_flex::frame::BlockMode::Linked
    };
    fi.content_checksum = a.get(3).map(|s| s == "1").unwrap_or(false);
    let mut data = Vec::new();
    std::io::stdin().read_to_end(&mut data).unwrap();
    if a.get(4).map(|s| s == "1").unwrap_or(false) {
        fi.content_size = Some(data.len() as u64);
    }
    let mut enc = lz4_flex::frame::FrameEncoder::with_frame_info(fi, Vec::new());
    enc.write_all(&data).unwrap();
    let out = enc.finish().unwrap();
    std::io::stdout().write_all(&out).unwrap();
}
