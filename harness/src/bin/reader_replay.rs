//! reader_replay: drive the real s4lib readers through call sequences read as NDJSON on stdin and print
//! every result as NDJSON on stdout (one output line per input instance).
//!
//! instance: {"id":…, "path":"…", "blocksz":N, "reader":"line|sysline|block|processor|names",
//!            "calls":[["line",fo]|["sysline",fo]|["between",fo,a,b]|["at",fo,a]|["drop",bo]|["block",bo]|["lru",0|1]],
//!            "after":[secs,nanos]|null, "before":[secs,nanos]|null, "tz":offset_secs}
//! result per call: {"r":"found","next":…,"beg":…,"end":…,"hex":…,"dt":[secs,nanos]} | {"r":"done"} | {"r":"err"}
use std::io::{BufRead, Write};
use std::panic::{catch_unwind, AssertUnwindSafe};
use std::path::Path;

use chrono::{FixedOffset, TimeZone};
use serde_json::{json, Value};

use s4lib::common::{FileOffset, FileType, ResultS3};
use s4lib::data::datetime::DateTimeLOpt;
use s4lib::readers::blockreader::BlockReader;
use s4lib::readers::filepreprocessor::{path_to_filetype, PathToFiletypeResult};
use s4lib::readers::linereader::LineReader;
use s4lib::readers::syslinereader::SyslineReader;
use s4lib::readers::syslogprocessor::SyslogProcessor;

fn hex(b: &[u8]) -> String {
    let mut s = String::with_capacity(b.len() * 2);
    for x in b {
        s.push_str(&format!("{:02x}", x));
    }
    s
}

fn dtopt(v: &Value, tz: &FixedOffset) -> DateTimeLOpt {
    match v {
        Value::Array(a) if a.len() == 2 => {
            let s = a[0].as_i64().unwrap_or(0);
            let n = a[1].as_u64().unwrap_or(0) as u32;
            tz.timestamp_opt(s, n).single()
        }
        _ => None,
    }
}

fn filetype_of(path: &str) -> FileType {
    match path_to_filetype(Path::new(path), true) {
        PathToFiletypeResult::Filetype(ft) => ft,
        PathToFiletypeResult::Archive(..) => FileType::Unparsable,
    }
}

fn sysline_json(next: FileOffset, sl: &s4lib::data::sysline::SyslineP) -> Value {
    let bytes: Vec<u8> = sl.verif_bytes();
    json!({"r":"found","next":next,"beg":sl.fileoffset_begin(),"end":sl.fileoffset_end(),
           "hex":hex(&bytes),"dt":[sl.dt().timestamp(), sl.dt().timestamp_subsec_nanos()],
           "lines": sl.count_lines()})
}

fn run_instance(inst: &Value) -> Value {
    s4lib::verif::ev("Instance", &[("id", inst["id"].as_i64().unwrap_or(-1))]);
    let path = inst["path"].as_str().unwrap_or("").to_string();
    let blocksz = inst["blocksz"].as_u64().unwrap_or(64);
    let reader = inst["reader"].as_str().unwrap_or("sysline");
    let tz = FixedOffset::east_opt(inst["tz"].as_i64().unwrap_or(0) as i32).unwrap();
    let ft = filetype_of(&path);
    let empty: Vec<Value> = Vec::new();
    let calls = inst["calls"].as_array().unwrap_or(&empty);
    let mut out: Vec<Value> = Vec::with_capacity(calls.len());
    match reader {
        "block" => {
            let mut br = match BlockReader::new(path.clone(), ft, blocksz) {
                Ok(b) => b,
                Err(e) => return json!({"id":inst["id"],"open_err":e.to_string()}),
            };
            let filesz = br.filesz();
            let nblocks = BlockReader::count_blocks(filesz, blocksz);
            for c in calls {
                let bo = c[1].as_u64().unwrap_or(0);
                match br.read_block(bo) {
                    ResultS3::Found(bp) => out.push(json!({"r":"found","hex":hex(&bp[..])})),
                    ResultS3::Done => out.push(json!({"r":"done"})),
                    ResultS3::Err(e) => out.push(json!({"r":"err","e":e.to_string()})),
                }
            }
            return json!({"id":inst["id"],"filesz":filesz,"blocks":nblocks,"streamed":br.is_streamed_file(),"res":out});
        }
        "line" => {
            let mut lr = match LineReader::new(path.clone(), ft, blocksz) {
                Ok(b) => b,
                Err(e) => return json!({"id":inst["id"],"open_err":e.to_string()}),
            };
            for c in calls {
                let op = c[0].as_str().unwrap_or("");
                match op {
                    "line" => {
                        let fo = c[1].as_u64().unwrap_or(0);
                        match lr.find_line(fo) {
                            ResultS3::Found((next, lp)) => {
                                let bytes: Vec<u8> = lp.verif_bytes();
                                out.push(json!({"r":"found","next":next,"beg":lp.fileoffset_begin(),
                                                "end":lp.fileoffset_end(),"hex":hex(&bytes)}));
                            }
                            ResultS3::Done => out.push(json!({"r":"done"})),
                            ResultS3::Err(e) => out.push(json!({"r":"err","e":e.to_string()})),
                        }
                    }
                    "lineib" => {
                        let fo = c[1].as_u64().unwrap_or(0);
                        match lr.find_line_in_block(fo) {
                            (ResultS3::Found((next, lp)), _) => {
                                let bytes: Vec<u8> = lp.verif_bytes();
                                out.push(json!({"r":"found","next":next,"beg":lp.fileoffset_begin(),
                                                "end":lp.fileoffset_end(),"hex":hex(&bytes)}));
                            }
                            (ResultS3::Done, partial) => out.push(json!({"r":"done","partial":partial.is_some()})),
                            (ResultS3::Err(e), _) => out.push(json!({"r":"err","e":e.to_string()})),
                        }
                    }
                    "scanline" => {
                        // the block-zero scan of the program: in-block calls from offset 0 along `next`
                        let k = c[1].as_u64().unwrap_or(1);
                        let mut fo = 0u64;
                        let mut steps: Vec<Value> = Vec::new();
                        for _ in 0..k {
                            match lr.find_line_in_block(fo) {
                                (ResultS3::Found((next, lp)), _) => {
                                    let bytes: Vec<u8> = lp.verif_bytes();
                                    steps.push(json!({"r":"found","next":next,"beg":lp.fileoffset_begin(),
                                                      "end":lp.fileoffset_end(),"hex":hex(&bytes)}));
                                    fo = next;
                                }
                                (ResultS3::Done, partial) => {
                                    steps.push(json!({"r":"done","partial":partial.is_some()}));
                                    break;
                                }
                                (ResultS3::Err(e), _) => {
                                    steps.push(json!({"r":"err","e":e.to_string()}));
                                    break;
                                }
                            }
                        }
                        out.push(json!({"r":"scan","steps":steps}));
                    }
                    "lru" => {
                        if c[1].as_u64().unwrap_or(1) == 1 {
                            lr.LRU_cache_enable();
                        } else {
                            lr.LRU_cache_disable();
                        }
                        out.push(json!({"r":"ok"}));
                    }
                    _ => out.push(json!({"r":"badop"})),
                }
            }
            return json!({"id":inst["id"],"res":out});
        }
        "sysline" => {
            let mut sr = match SyslineReader::new(path.clone(), ft, blocksz, tz) {
                Ok(b) => b,
                Err(e) => return json!({"id":inst["id"],"open_err":e.to_string()}),
            };
            for c in calls {
                let op = c[0].as_str().unwrap_or("");
                let fo = c[1].as_u64().unwrap_or(0);
                let res = match op {
                    "sysline" => Some(sr.find_sysline(fo)),
                    "between" => Some(sr.find_sysline_between_datetime_filters(fo, &dtopt(&c[2], &tz), &dtopt(&c[3], &tz))),
                    "at" => Some(sr.find_sysline_at_datetime_filter(fo, &dtopt(&c[2], &tz))),
                    "syslineib" => {
                        let (r_, partial) = sr.find_sysline_in_block(fo);
                        match r_ {
                            ResultS3::Found((next, sl)) => out.push(sysline_json(next, &sl)),
                            ResultS3::Done => out.push(json!({"r":"done","partial":partial})),
                            ResultS3::Err(e) => out.push(json!({"r":"err","e":e.to_string()})),
                        }
                        None
                    }
                    "scansys" => {
                        let mut at = 0u64;
                        let mut steps: Vec<Value> = Vec::new();
                        for _ in 0..fo {
                            let (r_, partial) = sr.find_sysline_in_block(at);
                            match r_ {
                                ResultS3::Found((next, sl)) => {
                                    steps.push(sysline_json(next, &sl));
                                    at = next;
                                }
                                ResultS3::Done => {
                                    steps.push(json!({"r":"done","partial":partial}));
                                    break;
                                }
                                ResultS3::Err(e) => {
                                    steps.push(json!({"r":"err","e":e.to_string()}));
                                    break;
                                }
                            }
                        }
                        out.push(json!({"r":"scan","steps":steps}));
                        None
                    }
                    "drop" => {
                        let ok = sr.drop_data(fo);
                        out.push(json!({"r":"ok","dropped":ok}));
                        None
                    }
                    "lru" => {
                        if fo == 1 {
                            sr.LRU_cache_enable();
                        } else {
                            sr.LRU_cache_disable();
                        }
                        out.push(json!({"r":"ok"}));
                        None
                    }
                    _ => {
                        out.push(json!({"r":"badop"}));
                        None
                    }
                };
                if let Some(res) = res {
                    match res {
                        ResultS3::Found((next, sl)) => out.push(sysline_json(next, &sl)),
                        ResultS3::Done => out.push(json!({"r":"done"})),
                        ResultS3::Err(e) => out.push(json!({"r":"err","e":e.to_string()})),
                    }
                }
            }
            return json!({"id":inst["id"],"res":out});
        }
        "processor" => {
            // the call sequence of exec_syslogprocessor (src/bin/s4.rs), returning every message in order
            let after = dtopt(&inst["after"], &tz);
            let before = dtopt(&inst["before"], &tz);
            let mut sp = match SyslogProcessor::new(path.clone(), ft, blocksz, tz, after, before) {
                Ok(b) => b,
                Err(e) => return json!({"id":inst["id"],"open_err":e.to_string()}),
            };
            let r0 = sp.process_stage0_valid_file_check();
            if !r0.is_ok() {
                return json!({"id":inst["id"],"stage":0,"res":out});
            }
            let r1 = sp.process_stage1_blockzero_analysis();
            if !r1.is_ok() {
                return json!({"id":inst["id"],"stage":1,"why":format!("{:?}", r1),"res":out});
            }
            let r2 = sp.process_stage2_find_dt(&after);
            if !r2.is_ok() {
                return json!({"id":inst["id"],"stage":2,"why":format!("{:?}", r2),"res":out});
            }
            let mut fo1: FileOffset = 0;
            let mut more = false;
            match sp.find_sysline_between_datetime_filters(0) {
                ResultS3::Found((fo, sl)) => {
                    fo1 = fo;
                    let last = sp.is_sysline_last(&sl);
                    let mut j = sysline_json(fo, &sl);
                    j["last"] = json!(last);
                    out.push(j);
                    more = !last;
                }
                ResultS3::Done => {}
                ResultS3::Err(e) => out.push(json!({"r":"err","e":e.to_string()})),
            }
            if more {
                sp.process_stage3_stream_syslines();
                let mut prev: Option<s4lib::data::sysline::SyslineP> = None;
                loop {
                    match sp.find_sysline_between_datetime_filters(fo1) {
                        ResultS3::Found((fo, sl)) => {
                            let last = sp.is_sysline_last(&sl);
                            let mut j = sysline_json(fo, &sl);
                            j["last"] = json!(last);
                            out.push(j);
                            fo1 = fo;
                            if last {
                                break;
                            }
                            if let Some(p) = prev.take() {
                                sp.drop_data_try(&p);
                            }
                            prev = Some(sl);
                        }
                        ResultS3::Done => break,
                        ResultS3::Err(e) => {
                            out.push(json!({"r":"err","e":e.to_string()}));
                            break;
                        }
                    }
                }
            }
            let _ = sp.process_stage4_summary();
            return json!({"id":inst["id"],"stage":4,"res":out});
        }
        _ => json!({"id":inst["id"],"bad_reader":reader}),
    }
}

fn main() {
    let stdin = std::io::stdin();
    let stdout = std::io::stdout();
    let mut so = stdout.lock();
    for line in stdin.lock().lines() {
        let line = match line {
            Ok(l) => l,
            Err(_) => break,
        };
        if line.trim().is_empty() {
            continue;
        }
        let inst: Value = match serde_json::from_str(&line) {
            Ok(v) => v,
            Err(e) => {
                let _ = writeln!(so, "{}", json!({"bad_json": e.to_string()}));
                continue;
            }
        };
        let res = catch_unwind(AssertUnwindSafe(|| run_instance(&inst)));
        let v = match res {
            Ok(v) => v,
            Err(p) => {
                let msg = if let Some(s) = p.downcast_ref::<String>() {
                    s.clone()
                } else if let Some(s) = p.downcast_ref::<&str>() {
                    s.to_string()
                } else {
                    String::from("panic")
                };
                json!({"id": inst["id"], "panic": msg})
            }
        };
        let _ = writeln!(so, "{}", v);
    }
}
