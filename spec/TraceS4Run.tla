----------------------------- MODULE TraceS4Run -----------------------------
(***************************************************************************)
(* Implementation -> specification trace validation of S4Run.              *)
(*                                                                         *)
(* Input: IOEnv.TRACE = NDJSON file, several recorded runs of the hooked   *)
(* binary concatenated; every run starts with a "Reset" record carrying    *)
(* the ground truth known to the generator (n, dts, shape, tmpw, seplen).  *)
(* Every other record is one hook event (src/verif.rs), annotated by the   *)
(* driver with pure look-ahead fields taken from the same trace:           *)
(*   nrw / nrk : source and kind of the next "Recv" of the main thread     *)
(*               (0 / -1 when the next main event is not a Recv)           *)
(* Each event is matched to the S4Run action at that hook point; steps the *)
(* hooks cannot see (the instant a datum enters / leaves the lock-free     *)
(* channel, lock acquisitions) are silent steps of the original actions,   *)
(* bounded by the look-ahead fields.  All invariants of S4Run and the      *)
(* action property PrintIsEarliest are evaluated at every step.            *)
(***************************************************************************)
EXTENDS S4Run, Json, IOUtils, TLCExt, Integers

Rec == ndJsonDeserialize(IOEnv.TRACE)

VARIABLES l,        \* next record to consume
          started,  \* started[w]: SendStart events of w consumed
          nrun,     \* runs consumed
          accb, accm, seplen, \* C19 accumulators: bytes, messages printed; separator length
          hstart    \* HStart consumed, lock not yet taken

tvars == <<vars, l, started, nrun, accb, accm, seplen, hstart>>

R == Rec[l]
Has(f) == f \in DOMAIN R
More == l <= Len(Rec)
Ev(e) == More /\ R.ev = e
Adv == l' = l + 1
Wof(t) == IF t = "w0" THEN 1 ELSE IF t = "w1" THEN 2 ELSE IF t = "w2" THEN 3 ELSE IF t = "w3" THEN 4
          ELSE IF t = "w4" THEN 5 ELSE IF t = "w5" THEN 6 ELSE IF t = "w6" THEN 7 ELSE IF t = "w7" THEN 8 ELSE 0
TW == Wof(R.t)                  \* worker of the current record's thread
PW == R.w + 1                   \* PathId (0-based in the code) -> 1-based source

TUNCH == UNCHANGED <<started, nrun, accb, accm, seplen, hstart>>
Stutter == UNCHANGED vars

\* script position of a (kind, ordinal) pair of source w
Pos(w, k, i) == IF k = 0 THEN 1 ELSE IF k = 1 THEN i + 2 ELSE ScriptLen(w)

PadTo(s, n, x) == [j \in 1..n |-> IF j <= Len(s) THEN s[j] ELSE x]

\* ---------------------------------------------------------------- reset
DoReset ==
  LET n == R.n IN
  /\ dts' = PadTo(R.dts, N, <<>>)
  /\ shape' = PadTo(R.shape, N, "ok")
  /\ wpc' = [w \in W |-> IF w > n THEN "ret" ELSE IF w \in TMPW THEN FirstPc ELSE "run"]
  /\ wi' = [w \in W |-> 0] /\ ri' = [w \in W |-> 0]
  /\ closed' = [w \in W |-> w > n] /\ rdrop' = [w \in W |-> FALSE]
  /\ live' = 1..n
  /\ pending' = [w \in W |-> 0]
  /\ fi' = [w \in W |-> w > n] /\ fic' = FALSE
  /\ np' = [w \in W |-> 0]
  /\ cpc' = "loop" /\ got' = <<0, 0>>
  /\ recvErr' = 0 /\ errs' = 0 /\ ret' = TRUE
  /\ disk' = {} /\ listed' = {}
  /\ hpc' = "idle" /\ exitEarly' = FALSE /\ ntfClosed' = FALSE /\ exited' = FALSE
  /\ started' = [w \in W |-> 0]
  /\ accb' = 0 /\ accm' = 0 /\ seplen' = R.seplen /\ hstart' = FALSE
  /\ nrun' = nrun + 1

TInit ==
  /\ l = 1 /\ nrun = 0 /\ TLCSet(1, 1)
  /\ dts = [w \in W |-> <<>>] /\ shape = [w \in W |-> "ok"]
  /\ wpc = [w \in W |-> "ret"] /\ wi = [w \in W |-> 0] /\ ri = [w \in W |-> 0]
  /\ closed = [w \in W |-> TRUE] /\ rdrop = [w \in W |-> FALSE]
  /\ live = {} /\ pending = [w \in W |-> 0] /\ fi = [w \in W |-> TRUE] /\ fic = TRUE
  /\ np = [w \in W |-> 0] /\ cpc = "done" /\ got = <<0, 0>> /\ recvErr = 0 /\ errs = 0 /\ ret = TRUE
  /\ disk = {} /\ listed = {} /\ hpc = "idle" /\ exitEarly = FALSE /\ ntfClosed = FALSE /\ exited = TRUE
  /\ started = [w \in W |-> 0] /\ accb = 0 /\ accm = 0 /\ seplen = 0 /\ hstart = FALSE

TReset == Ev("Reset") /\ Adv /\ DoReset

\* ---------------------------------------------------------------- worker events
TSendStart ==
  /\ Ev("SendStart") /\ Adv
  /\ LET w == TW IN
     /\ w \in W /\ wpc[w] = "run"
     /\ started[w] = wi[w]
     /\ wi[w] + 1 = Pos(w, R.k, R.i)
     /\ (R.k = 1) => (R.i + 1 <= NMsg(w) /\ MsgDt(w, R.i + 1) = R.d)
     /\ (R.k = 0) => (FiOk(w) <=> R.ok = 1)
     /\ (R.k = 2) => (SumOk(w) <=> R.serr = 0)
     /\ started' = [started EXCEPT ![w] = @ + 1]
  /\ Stutter /\ UNCHANGED <<nrun, accb, accm, seplen, hstart>>

\* silent: the datum enters the channel (or the send fails: receiver dropped)
TEnqueue(w) ==
  /\ More /\ started[w] = wi[w] + 1
  /\ WSend(w)
  /\ UNCHANGED l /\ TUNCH

TSendDone ==
  /\ Ev("SendDone") /\ Adv
  /\ LET w == TW IN
     /\ w \in W
     /\ wi[w] = Pos(w, R.k, R.i) /\ started[w] = wi[w]
  /\ Stutter /\ TUNCH

TWStart == Ev("WStart") /\ Adv /\ TW \in W /\ wi[TW] = 0 /\ Stutter /\ TUNCH
TSpawn == Ev("Spawn") /\ Adv /\ PW \in live /\ Stutter /\ TUNCH
TTempCreate == Ev("TempCreate") /\ Adv /\ WCreate(TW) /\ TUNCH
\* silent: creation refused after the handler closed the list (the worker then reports an open error)
TCreateRefused(w) == More /\ WCreateRefused(w) /\ UNCHANGED l /\ TUNCH
\* silent: the unlocked "list closed?" test
TCheck(w) == More /\ WCheck(w) /\ UNCHANGED l /\ TUNCH
TTempRegister == Ev("TempRegister") /\ Adv /\ WRegister(TW) /\ TUNCH
TReaderDrop == Ev("ReaderDrop") /\ Adv /\ (IF TW \in TMPW THEN WDrop(TW) ELSE Stutter) /\ TUNCH
TWReturn ==
  /\ Ev("WReturn") /\ Adv
  /\ WReturn(TW)
  /\ TUNCH

\* ---------------------------------------------------------------- coordinator
\* silent: read lock + select entered, because the next main event is a Recv / SelNone
TEnterSel ==
  /\ More /\ R.nrk >= 0
  /\ CEnterSel
  /\ UNCHANGED l /\ TUNCH

\* silent: select() returned (datum left the channel)
TDequeue ==
  /\ More /\ R.nrk \in {0, 1, 2} /\ R.nrw \in W
  /\ CDequeue(R.nrw)
  /\ UNCHANGED l /\ TUNCH
TDisc ==
  /\ More /\ R.nrk = 3 /\ R.nrw \in W
  /\ CDisc(R.nrw)
  /\ UNCHANGED l /\ TUNCH

TRecv ==
  /\ Ev("Recv") /\ Adv
  /\ cpc = "got" /\ got[1] = PW
  /\ LET w == got[1]  p == got[2] IN
       CASE R.k = 0 -> p = 1
         [] R.k = 1 -> p # 0 /\ IsMsg(w, p)
         [] R.k = 2 -> p # 0 /\ IsSum(w, p)
         [] R.k = 3 -> p = 0
  /\ CProcess
  /\ TUNCH

TSelNone == Ev("SelNone") /\ Adv /\ CNone /\ TUNCH
TFiAll == Ev("FiAll") /\ Adv /\ fic /\ Stutter /\ TUNCH
TFirstPrint == Ev("FirstPrint") /\ Adv /\ R.n = Cardinality(PendSet) /\ Stutter /\ TUNCH

TPrint ==
  /\ Ev("Print") /\ Adv
  /\ LET w == PW IN
     /\ pending[w] = R.i + 1
     /\ MsgDt(w, R.i + 1) = R.d
     /\ np[w] = R.i
     /\ CPrint
     /\ np'[w] = np[w] + 1
  /\ accm' = accm + 1
  /\ UNCHANGED <<started, nrun, accb, seplen, hstart>>

TPrinted ==
  /\ Ev("Printed") /\ Adv /\ Stutter
  /\ accb' = accb + R.n + seplen
  /\ UNCHANGED <<started, nrun, accm, seplen, hstart>>
TAddNl ==
  /\ Ev("AddNl") /\ Adv /\ Stutter
  /\ accb' = accb + 1
  /\ UNCHANGED <<started, nrun, accm, seplen, hstart>>

TRemove == Ev("Remove") /\ Adv /\ PW \notin live /\ cpc \in {"loop", "after"} /\ Stutter /\ TUNCH
TLoopExit == Ev("LoopExit") /\ Adv /\ live = {} /\ cpc = "after" /\ Stutter /\ TUNCH

\* C19: the totals the program reports equal what TLC summed over the Print events
TTotals ==
  /\ Ev("Totals") /\ Adv
  /\ cpc = "after"
  /\ (R.summary = 1) => /\ R.bytes = accb
                        /\ R.syslines + R.fixedstructs + R.evtxs + R.journals = accm
  /\ R.recv_err = recvErr
  /\ CAfter
  /\ TUNCH
TReturn == Ev("Return") /\ Adv /\ cpc = "done" /\ (ret <=> R.ret = 1) /\ Stutter /\ TUNCH
TExitEarly ==
  /\ Ev("ExitEarly") /\ Adv
  /\ exitEarly
  /\ IF cpc = "after" THEN CAfter ELSE CExitEarly
  /\ TUNCH
TSweep == Ev("Sweep") /\ Adv /\ CSweep /\ R.n = Cardinality(listed) /\ TUNCH
TMainExit == Ev("MainExit") /\ Adv /\ (ret <=> R.ok = 1) /\ ProcExit /\ TUNCH

\* ---------------------------------------------------------------- signal handler
TFilters == Ev("Filters") /\ Adv /\ Stutter /\ TUNCH
TStage1 == Ev("Stage1") /\ Adv /\ Stutter /\ TUNCH
TSigRaise == Ev("SigRaise") /\ Adv /\ Stutter /\ TUNCH
TPlanAbandoned == Ev("PlanAbandoned") /\ Adv /\ Stutter /\ TUNCH
THStart == Ev("HStart") /\ Adv /\ Sigint /\ hstart' = TRUE /\ UNCHANGED <<started, nrun, accb, accm, seplen>>
THLock == More /\ hstart /\ HLock /\ hstart' = FALSE /\ UNCHANGED <<l, started, nrun, accb, accm, seplen>>
THCleared == Ev("HCleared") /\ Adv /\ HClear /\ TUNCH
THNtfLock == More /\ HNtfLock /\ UNCHANGED l /\ TUNCH
THRemoved == Ev("HRemoved") /\ Adv /\ HRemove /\ R.n = Cardinality(listed) /\ TUNCH
THFlag == Ev("HFlag") /\ Adv /\ HFlag /\ TUNCH

\* the MainExit hook sits just before `main` returns: other threads may still log an event or two
\* before the process is really gone; such events change nothing in the model
TAfterExit == More /\ exited /\ R.ev # "Reset" /\ Adv /\ Stutter /\ TUNCH

TNext ==
  \/ TReset \/ TAfterExit
  \/ TSendStart \/ (\E w \in W : TEnqueue(w)) \/ TSendDone \/ TWStart \/ TSpawn
  \/ TTempCreate \/ TTempRegister \/ (\E w \in W : TCreateRefused(w) \/ TCheck(w)) \/ TReaderDrop \/ TWReturn
  \/ TEnterSel \/ TDequeue \/ TDisc \/ TRecv \/ TSelNone \/ TFiAll \/ TFirstPrint
  \/ TPrint \/ TPrinted \/ TAddNl \/ TRemove \/ TLoopExit \/ TTotals \/ TReturn \/ TExitEarly \/ TSweep \/ TMainExit
  \/ TSigRaise \/ TFilters \/ TStage1 \/ TPlanAbandoned \/ THStart \/ THLock \/ THCleared \/ THNtfLock \/ THRemoved \/ THFlag

TSpec == TInit /\ [][TNext]_tvars

\* ---------------------------------------------------------------- acceptance
\* highest record index consumed, kept in a TLC register (needs -workers 1)
Progress == (IF l > TLCGet(1) THEN TLCSet(1, l) ELSE TRUE)
Accepted ==
  \/ TLCGet(1) = Len(Rec) + 1
  \/ /\ PrintT(<<"UNMATCHED", TLCGet(1), Len(Rec), IF TLCGet(1) <= Len(Rec) THEN Rec[TLCGet(1)] ELSE "end">>)
     /\ FALSE

\* invariants restated for a trace (no signal-freedom assumption needed beyond S4Run's own)
TPrintIsEarliest == [][(More /\ R.ev = "Reset") \/ PrintStep]_tvars
TraceInv == AllPrintedAtEnd /\ RetMeaning /\ PendingLive /\ ChanBound
=============================================================================
