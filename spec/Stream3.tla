------------------------------ MODULE Stream3 ------------------------------
(***************************************************************************)
(* C17.  Stage 3 of SyslogProcessor ("streaming"): messages are found one  *)
(* after another from the start of the file, handed to the printer, and    *)
(* the data behind the read position is released:                          *)
(*   drop_data_try(previous message p): drop_data(first block of p - 2)    *)
(*   drop_data(bo): every known message whose LAST block <= bo is dropped, *)
(*       with it its lines; LineReader::drop_line releases the blocks of   *)
(*       all parts of a line EXCEPT the last part (the next line may start *)
(*       in that block);  ALIGNED = TRUE: it also releases the last part's *)
(*       block when the line ends on the last byte of that block.          *)
(* A file is a sequence of line lengths (every line a message), block size *)
(* B.  `held` = blocks in BlockReader storage.  TLC checks, for every file *)
(* up to MaxLines lines with lengths from LENS (including multiples of B), *)
(* that the number of held blocks never exceeds the block span of the      *)
(* largest message times 4 (the message read, the one after it, and the two *)
(* kept by the look-behind distance) plus a constant.                     *)
(* `Find` makes no difference between a message that is printed and one    *)
(* that is passed over because it lies before --dt-after: both are found   *)
(* one after the other and what lies two blocks behind is released.  For   *)
(* streamed files the code did NOT release behind passed-over messages     *)
(* (measured: lines high = 19 004 of 20 000); fix af9a0f03 made it agree.  *)
(***************************************************************************)
EXTENDS Naturals, Sequences, FiniteSets, TLC

CONSTANTS B, LENS, MaxLines, ALIGNED, SLACK

VARIABLES file, i, held, known, high
vars == <<file, i, held, known, high>>

RECURSIVE Sum(_, _)
Sum(f, k) == IF k = 0 THEN 0 ELSE f[k] + Sum(f, k - 1)
Beg(k) == Sum(file, k - 1)
End(k) == Sum(file, k) - 1
BlkFirst(k) == Beg(k) \div B
BlkLast(k) == End(k) \div B
Blocks(k) == BlkFirst(k)..BlkLast(k)
Span(k) == BlkLast(k) - BlkFirst(k) + 1
RECURSIVE MaxSpanTo(_)
MaxSpanTo(k) == IF k = 0 THEN 0 ELSE IF Span(k) > MaxSpanTo(k - 1) THEN Span(k) ELSE MaxSpanTo(k - 1)
N == Len(file)

Init == /\ file \in UNION {[1..n -> LENS] : n \in 1..MaxLines}
        /\ i = 1 /\ held = {} /\ known = {} /\ high = 0

\* blocks released when line k is dropped
Released(k) == (BlkFirst(k)..(BlkLast(k) - 1)) \cup
               (IF ALIGNED /\ (End(k) + 1) % B = 0 THEN {BlkLast(k)} ELSE {})

\* find message i: its blocks are read, and the start of line i+1 (to see where i ends)
Find ==
  /\ i <= N
  /\ LET rd == Blocks(i) \cup (IF i < N THEN {BlkFirst(i + 1)} ELSE {})
         h2 == held \cup rd
         k2 == known \cup {i}
         \* drop_data_try(previous message): everything whose last block <= first block of (i-1) - 2
         lim == IF i >= 2 /\ BlkFirst(i - 1) >= 2 THEN BlkFirst(i - 1) - 2 ELSE 0
         can == i >= 2 /\ BlkFirst(i - 1) >= 2
         gone == IF can THEN {k \in k2 : BlkLast(k) <= lim} ELSE {}
         rel == UNION {Released(k) : k \in gone} IN
     /\ held' = h2 \ rel
     /\ known' = k2 \ gone
     /\ high' = IF Cardinality(h2) > high THEN Cardinality(h2) ELSE high
  /\ i' = i + 1
  /\ UNCHANGED file

Next == Find
Spec == Init /\ [][Next]_vars

\* C17: bounded by the largest message's span plus a constant, whatever the file length
Bounded == high <= 4 * MaxSpanTo(N) + SLACK
\* sanity: nothing still needed is released (the message being read and the previous one stay)
NeededStay == i >= 2 /\ i <= N + 1 => Blocks(i - 1) \subseteq held \/ i - 1 \notin known
=============================================================================
