--------------------------- MODULE TraceYearWalk ---------------------------
(***************************************************************************)
(* Implementation -> specification trace validation of YearWalk (C11).     *)
(* Input: IOEnv.TRACE = NDJSON: per rendered year-less file one "Reset"    *)
(* record (n messages, their byte offsets `fos`, the table `abs` of real   *)
(* calendar instants of every message read with the modification time's   *)
(* year, the year before, ..., and the --dt-after instant A or -1),        *)
(* followed by the YwStart / YwRetry / YwAccept / YwStop events recorded   *)
(* in SyslogProcessor::process_missing_year of the hooked binary.  Years   *)
(* are written relative to the modification time's year (Y0 = 0).          *)
(* Each event must be the YearWalk step enabled at that point, with the    *)
(* logged message offset, year and computed instant equal to the model's;  *)
(* Correct / WindowCovered / YearSane are evaluated after every event.     *)
(***************************************************************************)
EXTENDS YearWalk, Json, IOUtils, TLCExt

Rec == ndJsonDeserialize(IOEnv.TRACE)
VARIABLES l, fos
tvars == <<vars, l, fos>>
R == Rec[l]
More == l <= Len(Rec)
Ev(e) == More /\ R.ev = e
Adv == l' = l + 1

TInit == /\ l = 1 /\ TLCSet(1, 1) /\ fos = <<>>
         /\ md = <<>> /\ abs = <<>> /\ A = -1 /\ i = 0 /\ year = Y0 /\ yr = <<>> /\ pc = "done"

TReset ==
  /\ Ev("Reset") /\ Adv
  /\ md' = [k \in 1..R.n |-> 0] /\ abs' = R.abs /\ A' = R.A /\ fos' = R.fos
  /\ i' = R.n /\ year' = Y0 /\ yr' = [k \in 1..R.n |-> 0] /\ pc' = "walk"

TStart == Ev("YwStart") /\ Adv /\ R.year = Y0 /\ pc = "walk" /\ i = N /\ year = Y0 /\ UNCHANGED <<vars, fos>>

\* the walk re-reads message i with the year before
TRetry ==
  /\ Ev("YwRetry") /\ Adv
  /\ pc = "walk" /\ i >= 1 /\ R.fo = fos[i] /\ R.ds = Abs(i, year) /\ R.year = year - 1
  /\ Step /\ year' = year - 1
  /\ UNCHANGED fos

\* message i keeps the current year; the walk moves up, or ends (first message / before --dt-after)
TAccept ==
  /\ Ev("YwAccept") /\ Adv
  /\ pc = "walk" /\ i >= 1 /\ R.fo = fos[i] /\ R.ds = Abs(i, year) /\ R.year = year
  /\ Step /\ yr'[i] = year
  /\ UNCHANGED fos

TStop == Ev("YwStop") /\ Adv /\ pc = "done" /\ R.why = (IF i = 1 THEN 1 ELSE 2) /\ UNCHANGED <<vars, fos>>

TNext == TReset \/ TStart \/ TRetry \/ TAccept \/ TStop
TSpec == TInit /\ [][TNext]_tvars

Progress == (IF l > TLCGet(1) THEN TLCSet(1, l) ELSE TRUE)
Accepted ==
  \/ TLCGet(1) = Len(Rec) + 1
  \/ /\ PrintT(<<"UNMATCHED", TLCGet(1), Len(Rec), IF TLCGet(1) <= Len(Rec) THEN Rec[TLCGet(1)] ELSE "end">>)
     /\ FALSE
\* a walk that ended must not be followed by a new file before its YwStop was seen: checked by TStop's pc = "done"
TraceInv == (N > 0 => (Correct /\ WindowCovered)) /\ YearSane
=============================================================================
