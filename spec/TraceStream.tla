---------------------------- MODULE TraceStream ----------------------------
(***************************************************************************)
(* I->S for Stream.tla / Stream3.tla: the ReadBlock / Store / DropBlock    *)
(* events of one BlockReader (hooks in src/readers/blockreader.rs) against *)
(* the block discipline the specifications state:                          *)
(*   Store(bo, len)   len is exactly the length of block bo of the file;   *)
(*                    a block is never stored twice while held; for a      *)
(*                    streamed container blocks are stored strictly in     *)
(*                    order (bo = number of blocks stored so far)          *)
(*   DropBlock(bo)    only blocks that were stored are removed; `held` of  *)
(*                    the next Store equals the model's count              *)
(*   ReadBlock(bo)    a streamed reader that drops is never asked for a    *)
(*                    block it has dropped (Stream.NeverNeedDropped)       *)
(* Records: {"ev":"Reset","filesz":..,"B":..} then the hook events.        *)
(***************************************************************************)
EXTENDS Naturals, FiniteSets, Sequences, TLC, Json, IOUtils, TLCExt

Rec == ndJsonDeserialize(IOEnv.TRACE)
VARIABLES l, filesz, B, stored, dropped, nstored
vars == <<l, filesz, B, stored, dropped, nstored>>
R == Rec[l]
More == l <= Len(Rec)
Min(a, b) == IF a < b THEN a ELSE b
BlockLen(bo) == IF (bo + 1) * B <= filesz THEN B ELSE IF bo * B < filesz THEN filesz - bo * B ELSE 0

Init == l = 1 /\ TLCSet(1, 1) /\ filesz = 0 /\ B = 1 /\ stored = {} /\ dropped = {} /\ nstored = 0
TReset == /\ More /\ R.ev = "Reset" /\ l' = l + 1
          /\ filesz' = R.filesz /\ B' = R.B /\ stored' = {} /\ dropped' = {} /\ nstored' = 0
TRead == /\ More /\ R.ev = "ReadBlock" /\ l' = l + 1
         /\ (R.streamed = 1 /\ R.drop = 1) => (R.bo \notin dropped \/ R.bo \in stored)
         /\ UNCHANGED <<filesz, B, stored, dropped, nstored>>
TStore == /\ More /\ R.ev = "Store" /\ l' = l + 1
          /\ R.bo \notin stored
          /\ R.len = BlockLen(R.bo) /\ R.len > 0
          /\ stored' = stored \cup {R.bo}
          /\ R.held = Cardinality(stored')
          /\ nstored' = nstored + 1
          /\ UNCHANGED <<filesz, B, dropped>>
TDrop == /\ More /\ R.ev = "DropBlock" /\ l' = l + 1
         /\ (R.had = 1) <=> (R.bo \in stored)
         /\ stored' = stored \ {R.bo}
         /\ dropped' = dropped \cup {R.bo}
         /\ UNCHANGED <<filesz, B, nstored>>
Next == TReset \/ TRead \/ TStore \/ TDrop
Spec == Init /\ [][Next]_vars
Progress == (IF l > TLCGet(1) THEN TLCSet(1, l) ELSE TRUE)
Accepted == \/ TLCGet(1) = Len(Rec) + 1
            \/ PrintT(<<"UNMATCHED", TLCGet(1), Len(Rec), IF TLCGet(1) <= Len(Rec) THEN Rec[TLCGet(1)] ELSE "end">>) /\ FALSE
=============================================================================
