---------------------------- MODULE TraceOrdered ----------------------------
(***************************************************************************)
(* Implementation -> specification trace validation of the FixedStruct     *)
(* machine of Ordered.tla (C08): FixedStructReader builds a map keyed by   *)
(* (time, file offset) in file order (preprocess_timevalues) and then      *)
(* walks it in key order, removing every entry it visits                    *)
(* (process_entry_at), each call naming the entry to visit next.           *)
(* Input: IOEnv.TRACE = NDJSON of the hook events of one or more files:    *)
(*   FsBegin                      a map is being built                      *)
(*   FsInsert {fo, r}             entry at offset fo, time rank r, inserted *)
(*   FsAt {fo, next, left}        entry fo visited and removed; `next` is   *)
(*                                the offset the caller is told to visit    *)
(*                                next (filesz when the map is empty)       *)
(* (r is the rank of the (seconds, microseconds) pair among the inserted   *)
(* values, computed by the driver: TLC integers are 32 bits.)              *)
(* Checked at every event: inserts come in file order; a visited entry is  *)
(* the minimum of the map under KeyLess (the walk is the sort of Emit);    *)
(* `next` is the new minimum; `left` is the size of the map.               *)
(***************************************************************************)
EXTENDS Ordered, Integers, Json, IOUtils, TLCExt

Rec == ndJsonDeserialize(IOEnv.TRACE)
VARIABLES l, map, lastfo, emitted, size
tvars == <<vars, l, map, lastfo, emitted, size>>
R == Rec[l]
More == l <= Len(Rec)
Ev(e) == More /\ R.ev = e
Adv == l' = l + 1

\* map: set of <<<<rank, fo>>, fo>> -- the shape BuildMap / WalkMap of Ordered use
MinOf(m) == CHOOSE x \in m : \A y \in m \ {x} : KeyLess(x, y)

TInit == /\ l = 1 /\ TLCSet(1, 1) /\ map = {} /\ lastfo = -1 /\ emitted = <<>> /\ size = 0
         /\ recs = <<>> /\ A = 0 /\ B = 99

TBegin == Ev("FsBegin") /\ Adv /\ map' = {} /\ lastfo' = -1 /\ emitted' = <<>> /\ size' = R.size /\ UNCHANGED vars

TInsert ==
  /\ Ev("FsInsert") /\ Adv
  /\ R.fo > lastfo                                   \* built in file order
  /\ map' = map \cup {<<(<<R.r, R.fo>>), R.fo>>}
  /\ lastfo' = R.fo
  /\ UNCHANGED <<vars, emitted, size>>

TAt ==
  /\ Ev("FsAt") /\ Adv
  /\ map # {}
  /\ LET m == MinOf(map) IN
     /\ R.fo = m[2]                                  \* the walk visits the least key
     /\ map' = map \ {m}
     /\ R.left = Cardinality(map) - 1
     /\ R.next = (IF map \ {m} = {} THEN size ELSE MinOf(map \ {m})[2])
     /\ emitted' = Append(emitted, m[2])
  /\ UNCHANGED <<vars, lastfo, size>>

TNext == TBegin \/ TInsert \/ TAt
TSpec == TInit /\ [][TNext]_tvars

Progress == (IF l > TLCGet(1) THEN TLCSet(1, l) ELSE TRUE)
Accepted ==
  \/ TLCGet(1) = Len(Rec) + 1
  \/ /\ PrintT(<<"UNMATCHED", TLCGet(1), Len(Rec), IF TLCGet(1) <= Len(Rec) THEN Rec[TLCGet(1)] ELSE "end">>)
     /\ FALSE
=============================================================================
