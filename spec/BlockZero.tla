----------------------------- MODULE BlockZero -----------------------------
(***************************************************************************)
(* The block-zero acceptance of a text file (SyslogProcessor::             *)
(* blockzero_analysis_{bytes,lines,syslines}) as a function of the byte    *)
(* layout and the block size B.  C02/C12 say the printed output must not   *)
(* depend on B; this acceptance DOES (it only looks for lines inside the   *)
(* block in which they start), which is the recorded finding               *)
(* "blockzero-reject".  The module is used as an executable definition:    *)
(* TLC evaluates Verdict on concrete instances handed over as JSON and the *)
(* driver compares (a) with its own mirror and (b) with what the real      *)
(* SyslogProcessor decides.                                                *)
(*                                                                         *)
(* instance: [B |-> .., beg |-> <<..>>, end |-> <<..>>, dated |-> <<..>>,  *)
(*            size |-> .., allnul |-> BOOLEAN, tslen |-> ..]               *)
(*   beg[i]/end[i]: first/last byte offset of line i (end includes the     *)
(*   newline).  SZMAX = SYSLOG_SZ_MAX of the build.                        *)
(***************************************************************************)
EXTENDS Naturals, Sequences, TLC, Json, IOUtils

CONSTANT SZMAX

Insts == JsonDeserialize(IOEnv.INSTANCES)

Min(a, b) == IF a < b THEN a ELSE b
Blk(I, fo) == fo \div I.B
NLines(I) == Len(I.beg)
Complete(I, i) == Blk(I, I.beg[i]) = Blk(I, I.end[i])
S0(I) == Min(I.B, I.size)
Big(I) == S0(I) >= SZMAX

BytesOk(I) == S0(I) > 0 /\ S0(I) >= Min(6, I.B) /\ ~I.allnul

\* blockzero_analysis_lines: complete lines while still in block zero, one partial line counts
RECURSIVE CountLines(_, _, _, _)
CountLines(I, i, found, need) ==
  IF found >= need \/ i > NLines(I) THEN found
  ELSE IF ~Complete(I, i) THEN found + 1
  ELSE IF i + 1 <= NLines(I) /\ Blk(I, I.beg[i + 1]) # 0 THEN found + 1
  ELSE CountLines(I, i + 1, found + 1, need)
LinesOk(I) == LET need == IF Big(I) THEN 3 ELSE 1 IN CountLines(I, 1, 0, need) >= need

\* find_sysline_in_block from line i: <<"found", next line>> | <<"partial">> | <<"none">> | <<"unknown">>
RECURSIVE LoopB(_, _)
LoopB(I, j) ==
  IF j > NLines(I) THEN <<"found", NLines(I) + 1>>
  ELSE IF ~Complete(I, j) THEN <<"partial", 0>>
  ELSE IF I.dated[j] THEN <<"found", j>>
  ELSE LoopB(I, j + 1)
RECURSIVE LoopA(_, _)
LoopA(I, i) ==
  IF i > NLines(I) THEN <<"none", 0>>
  ELSE IF ~Complete(I, i)
       THEN IF I.dated[i] /\ (Blk(I, I.beg[i]) + 1) * I.B - I.beg[i] >= I.tslen THEN <<"unknown", 0>> ELSE <<"none", 0>>
  ELSE IF I.dated[i] THEN LoopB(I, i + 1)
  ELSE LoopA(I, i + 1)

\* blockzero_analysis_syslines: <<found, unknown?>>
RECURSIVE CountSys(_, _, _, _)
CountSys(I, i, found, need) ==
  IF found >= need \/ i > NLines(I) \/ Blk(I, I.beg[i]) # 0 THEN <<found, FALSE>>
  ELSE LET r == LoopA(I, i) IN
       CASE r[1] = "found"   -> CountSys(I, r[2], found + 1, need)
         [] r[1] = "partial" -> <<found + 1, FALSE>>
         [] r[1] = "unknown" -> <<found, TRUE>>
         [] OTHER            -> <<found, FALSE>>

Verdict(I) ==
  IF ~BytesOk(I) \/ ~LinesOk(I) THEN "reject"
  ELSE LET need == IF Big(I) THEN 2 ELSE 1
           c == CountSys(I, 1, 0, need) IN
       IF c[1] >= need THEN "accept" ELSE IF c[2] THEN "unknown" ELSE "reject"

\* B-freeness fails exactly here: two block sizes, two verdicts, same bytes
VARIABLE k
Init == k = 0
Next == k < Len(Insts) /\ k' = k + 1 /\ PrintT(<<"VERDICT", k + 1, Verdict(Insts[k + 1])>>)
Spec == Init /\ [][Next]_k
=============================================================================
