-------------------------------- MODULE Args --------------------------------
(***************************************************************************)
(* C15 / C01.  From the command line to the numbered list of sources.      *)
(*                                                                         *)
(* An argument is a single file, a directory (Walk.tla says what it        *)
(* expands to), a path that names nothing, or `-`.  The FIRST `-` stands   *)
(* for the lines of standard input, each of which is again a file, a       *)
(* directory or a path that names nothing (a `-` among the lines, and a    *)
(* second `-` among the arguments, name nothing).  The sources of the run  *)
(* are the concatenation of the expansions, in the order named; a path     *)
(* named twice is a source twice.  The position in that list is the        *)
(* PathId of S4Run.tla: its tie rule ("lower PathId first") is therefore   *)
(* "in the order the sources were named".                                  *)
(*                                                                         *)
(* Machine = main() of s4.rs: a first loop takes the arguments one by one  *)
(* into `paths` (`-` reads standard input to its end at that point), a     *)
(* second loop calls process_path on each and appends to processed_paths.  TLC checks machine = declarative      *)
(* Sources for every argument list and every stdin, and emits each as an   *)
(* instance that c15 runs end to end (every message at one instant, so     *)
(* the printed order IS the PathId order).                                 *)
(***************************************************************************)
EXTENDS Naturals, Sequences, FiniteSets, TLC

CONSTANTS MaxArgs, MaxLines

\* the universe: names -> what they expand to (a sequence of file ids)
Names == {"f1", "f2", "dA", "dB", "dE", "no", "-"}
ExpandOf(n) == CASE n = "f1" -> <<"f1">>
                 [] n = "f2" -> <<"f2">>
                 [] n = "dA" -> <<"dA/a1", "dA/s/a2">>
                 [] n = "dB" -> <<"dB/b1">>
                 [] OTHER -> <<>>       \* empty directory, missing path, a `-` that is not the first argument `-`

RECURSIVE Cat(_)
Cat(ss) == IF ss = <<>> THEN <<>> ELSE Head(ss) \o Cat(Tail(ss))
ExpandAllOf(seq) == Cat([i \in 1..Len(seq) |-> ExpandOf(seq[i])])

FirstDash(argv) == IF \E i \in 1..Len(argv) : argv[i] = "-" THEN CHOOSE i \in 1..Len(argv) : argv[i] = "-" /\ \A j \in 1..i - 1 : argv[j] # "-" ELSE 0
\* declarative: splice stdin in place of the first `-`, then expand
Spliced(argv, lines) == LET k == FirstDash(argv) IN
                        IF k = 0 THEN argv ELSE SubSeq(argv, 1, k - 1) \o lines \o SubSeq(argv, k + 1, Len(argv))
Sources(argv, lines) == ExpandAllOf(Spliced(argv, lines))

VARIABLES argv, lines, i, j, usedStdin, paths, k, processed, pc
vars == <<argv, lines, i, j, usedStdin, paths, k, processed, pc>>

SeqsUpTo(S, n) == UNION {[1..m -> S] : m \in 0..n}
Init == /\ argv \in SeqsUpTo(Names, MaxArgs) /\ Len(argv) >= 1
        /\ lines \in SeqsUpTo(Names, MaxLines)
        /\ i = 1 /\ j = 1 /\ usedStdin = FALSE /\ paths = <<>> /\ k = 1 /\ processed = <<>> /\ pc = "args"

\* first loop of main(): one argument; the first `-` switches to reading standard input to its end, a later one is skipped
TakeArg ==
  /\ pc = "args" /\ i <= Len(argv)
  /\ IF argv[i] = "-"
     THEN IF usedStdin THEN i' = i + 1 /\ UNCHANGED <<pc, usedStdin, j, paths>>
          ELSE pc' = "stdin" /\ usedStdin' = TRUE /\ j' = 1 /\ UNCHANGED <<i, paths>>
     ELSE paths' = Append(paths, argv[i]) /\ i' = i + 1 /\ UNCHANGED <<pc, usedStdin, j>>
  /\ UNCHANGED <<argv, lines, k, processed>>
\* one line of standard input: pushed as it is (a line `-` is then a path like any other, and names nothing)
TakeLine ==
  /\ pc = "stdin"
  /\ IF j <= Len(lines)
     THEN paths' = Append(paths, lines[j]) /\ j' = j + 1 /\ UNCHANGED <<pc, i>>
     ELSE pc' = "args" /\ i' = i + 1 /\ UNCHANGED <<paths, j>>
  /\ UNCHANGED <<argv, lines, usedStdin, k, processed>>
ArgsDone == pc = "args" /\ i > Len(argv) /\ pc' = "proc" /\ UNCHANGED <<argv, lines, i, j, usedStdin, paths, k, processed>>
\* second loop: process_path on each path in turn appends what it expands to
ProcessPath ==
  /\ pc = "proc"
  /\ IF k <= Len(paths) THEN processed' = processed \o ExpandOf(paths[k]) /\ k' = k + 1 /\ pc' = pc
     ELSE pc' = "done" /\ UNCHANGED <<processed, k>>
  /\ UNCHANGED <<argv, lines, i, j, usedStdin, paths>>
Next == TakeArg \/ TakeLine \/ ArgsDone \/ ProcessPath
Spec == Init /\ [][Next]_vars /\ WF_vars(Next)

\* the numbered list main() hands to processing_loop is the declarative one
Correct == pc = "done" => processed = Sources(argv, lines)
\* while running, what has been numbered so far is a prefix of it (a PathId once given never changes)
RECURSIVE IsPrefixOf(_, _)
IsPrefixOf(p, q) == Len(p) <= Len(q) /\ SubSeq(q, 1, Len(p)) = p
PrefixAlways == IsPrefixOf(processed, Sources(argv, lines))
Terminates == <>(pc = "done")
\* stdin is irrelevant when no `-` is named
NoDashNoStdin == (pc = "done" /\ FirstDash(argv) = 0) => processed = ExpandAllOf(argv)
Dump == pc = "done" => PrintT(<<"ARGS", argv, lines, processed>>)
=============================================================================
