------------------------------- MODULE Stream -------------------------------
(***************************************************************************)
(* C05.  Block assembly for streamed containers (BlockReader::             *)
(* read_block_File{Gz,Bz2,Lz4}).  A decoder yields the FILESZ plain bytes  *)
(* in chunks of nondeterministic size 1..K (a read may return fewer bytes  *)
(* than asked: end of an internal compressed block, buffer boundary); the  *)
(* reader assembles blocks of B bytes strictly in order, stores each one,  *)
(* drops the block before the one just stored ("look-behind drop", only    *)
(* while `dropData`), and answers read_block(bo).                          *)
(* Bytes are abstracted by their offsets: a block is the set of file       *)
(* offsets it holds, so "the right bytes" is "the right offsets".          *)
(*                                                                         *)
(* Invariants (all chunkings, all legal request sequences):                *)
(*   BlockExact   a stored block bo holds exactly [bo*B, min((bo+1)*B, FILESZ))  *)
(*   Answer       read_block(bo) answers that block, or Done iff bo*B >= FILESZ  *)
(*   NoLoss       every byte is delivered: the decoder is drained in order,     *)
(*                no byte skipped or duplicated when a chunk straddles a block  *)
(*   SizeKnown    the size measured up front equals the bytes decoded           *)
(* A legal caller of a stream with dropData asks for non-decreasing bo.    *)
(***************************************************************************)
EXTENDS Naturals, FiniteSets, Sequences, TLC

CONSTANTS FILESZ, B, K, DROP

NBlocks == (FILESZ + B - 1) \div B
Range(bo) == {o \in 0..(FILESZ - 1) : bo * B <= o /\ o < (bo + 1) * B}

VARIABLES pos,       \* bytes taken from the decoder so far
          cur,       \* offsets gathered for the block being assembled
          nextbo,    \* the block being assembled
          store,     \* function block offset -> set of offsets, for stored blocks
          dropped,   \* blocks dropped by the look-behind drop
          req,       \* the block currently requested (-1: none) -- naturals only: NBlocks + 1 = none
          lastreq,   \* highest block requested so far
          answers    \* log of <<bo, set-of-offsets or "done">> given to the caller

NONE == NBlocks + 5
vars == <<pos, cur, nextbo, store, dropped, req, lastreq, answers>>

Init == /\ pos = 0 /\ cur = {} /\ nextbo = 0 /\ store = <<>> /\ dropped = {} /\ req = NONE /\ lastreq = 0
        /\ answers = <<>>

Stored == DOMAIN store

\* caller: request a block (non-decreasing when dropping is on)
Request(bo) ==
  /\ req = NONE
  /\ DROP => bo >= lastreq
  /\ req' = bo /\ lastreq' = IF bo > lastreq THEN bo ELSE lastreq
  /\ UNCHANGED <<pos, cur, nextbo, store, dropped, answers>>

\* the decoder hands over a chunk of n bytes; bytes beyond the block being assembled stay in the decoder
\* (the reader asks for at most the bytes missing from the current block)
Chunk(n) ==
  /\ req # NONE /\ req \notin Stored /\ req * B < FILESZ
  /\ pos < FILESZ
  /\ LET want == (nextbo + 1) * B - pos          \* bytes missing from the current block
         m == IF n < want THEN n ELSE want
         got == IF pos + m > FILESZ THEN FILESZ - pos ELSE m IN
     /\ got > 0
     /\ cur' = cur \cup {o \in 0..(FILESZ - 1) : pos <= o /\ o < pos + got}
     /\ pos' = pos + got
  /\ UNCHANGED <<nextbo, store, dropped, req, lastreq, answers>>

\* block complete (full or end of stream): store it, look-behind drop, next block
StoreBlock ==
  /\ req # NONE /\ req \notin Stored
  /\ cur # {} /\ (pos = (nextbo + 1) * B \/ pos = FILESZ)
  /\ store' = [b \in (Stored \cup {nextbo}) \ (IF DROP /\ nextbo > 0 THEN {nextbo - 1} ELSE {}) |->
                 IF b = nextbo THEN cur ELSE store[b]]
  /\ dropped' = IF DROP /\ nextbo > 0 THEN dropped \cup {nextbo - 1} ELSE dropped
  /\ nextbo' = nextbo + 1 /\ cur' = {}
  /\ UNCHANGED <<pos, req, lastreq, answers>>

Answer ==
  /\ req # NONE
  /\ \/ /\ req \in Stored /\ answers' = Append(answers, <<req, store[req]>>)
     \/ /\ req * B >= FILESZ /\ answers' = Append(answers, <<req, "done">>)
  /\ req' = NONE
  /\ UNCHANGED <<pos, cur, nextbo, store, dropped, lastreq>>

Next == (\E bo \in 0..NBlocks : Request(bo)) \/ (\E n \in 1..K : Chunk(n)) \/ StoreBlock \/ Answer
Spec == Init /\ [][Next]_vars

BlockExact == \A b \in Stored : store[b] = Range(b)
AnswerOk == \A i \in 1..Len(answers) :
               LET a == answers[i] IN IF a[1] * B >= FILESZ THEN a[2] = "done" ELSE a[2] = Range(a[1])
NoLoss == /\ cur \subseteq Range(nextbo)
          /\ \A b \in Stored \cup dropped : b < nextbo
          /\ pos <= FILESZ
          /\ cur = {o \in 0..(FILESZ - 1) : nextbo * B <= o /\ o < pos}
\* a legal caller is never refused: a requested block is never one that was dropped
NeverNeedDropped == (req # NONE /\ DROP) => req \notin dropped \/ req \in Stored
Bound == Len(answers) <= 6
=============================================================================
