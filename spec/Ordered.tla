------------------------------ MODULE Ordered ------------------------------
(***************************************************************************)
(* Collect, filter by the datetime window, emit in key order: accounting   *)
(* records (C08), event-log records (C10), journal entries (C09).          *)
(*                                                                         *)
(* Input: a sequence of records, record i has time recs[i] (0 = a null     *)
(* record: all-zero bytes, skipped by the fixed-struct reader).  Window    *)
(* [A, B], both inclusive, 0 / 99 standing for "unbounded".                *)
(*                                                                         *)
(* Declarative:  Emit = the records with A <= t <= B sorted by (t, i)      *)
(*               (C03: selection; C08/C10: time order, ties keep file      *)
(*               order, every record exactly once).                        *)
(* Machines, shaped like the code:                                         *)
(*   FS   FixedStructReader::preprocess_timevalues builds a BTreeMap, then *)
(*        process_entry_at walks it in key order removing entries.  The    *)
(*        key is a design parameter: KEY = "time" (map keyed by the time   *)
(*        value only: a later record with an equal time overwrites the     *)
(*        earlier one) or "time_fo" (keyed by (time, file offset)).        *)
(*   EV   EvtxReader::analyze inserts every record under (time, index) and *)
(*        next() pops the first key.                                       *)
(*   JR   JournalReader: seek to the first entry with t >= A, then next()  *)
(*        until the first entry beyond B.  JBEFORE = "inclusive" stops at  *)
(*        t > B, "exclusive" stops at t >= B.  Journal enumeration order   *)
(*        is time order (monotone input).                                  *)
(* TLC checks machine = Emit on every record sequence up to MaxN over      *)
(* Times (duplicates, nulls interleaved) and every window.                 *)
(***************************************************************************)
EXTENDS Naturals, Sequences, FiniteSets, TLC

CONSTANTS MaxN, Times, KEY, JBEFORE

VARIABLES recs, A, B
vars == <<recs, A, B>>

Unb == {0, 99}
InWin(t) == (A = 0 \/ A <= t) /\ (B = 99 \/ t <= B)
N == Len(recs)
NonNull == {i \in 1..N : recs[i] # 0}
Sel == {i \in NonNull : InWin(recs[i])}

Less(i, j) == recs[i] < recs[j] \/ (recs[i] = recs[j] /\ i < j)
\* the sequence of the elements of S ordered by (time, index)
RECURSIVE SortBy(_)
SortBy(S) == IF S = {} THEN <<>>
             ELSE LET m == CHOOSE x \in S : \A y \in S \ {x} : Less(x, y) IN <<m>> \o SortBy(S \ {m})
Emit == SortBy(Sel)

\* ---------------------------------------------------------------- FixedStruct machine
\* preprocess_timevalues: insert in file order; equal keys overwrite
RECURSIVE BuildMap(_, _)
BuildMap(i, m) ==      \* m: set of <<key, idx>> pairs, at most one per key
  IF i > N THEN m
  ELSE IF i \notin Sel THEN BuildMap(i + 1, m)
  ELSE LET k == IF KEY = "time" THEN <<recs[i], 0>> ELSE <<recs[i], i>>
           m2 == {p \in m : p[1] # k} \cup {<<k, i>>} IN
       BuildMap(i + 1, m2)
KeyLess(p, q) == p[1][1] < q[1][1] \/ (p[1][1] = q[1][1] /\ p[1][2] < q[1][2])
RECURSIVE WalkMap(_)
WalkMap(m) == IF m = {} THEN <<>>
              ELSE LET p == CHOOSE x \in m : \A y \in m \ {x} : KeyLess(x, y) IN <<p[2]>> \o WalkMap(m \ {p})
FS == WalkMap(BuildMap(1, {}))

\* ---------------------------------------------------------------- Evtx machine
EV == SortBy({i \in 1..N : InWin(recs[i])})

\* ---------------------------------------------------------------- Journal machine (monotone input)
Monotone == \A i \in 1..N - 1 : recs[i] <= recs[i + 1]
SeekIdx == IF \E i \in 1..N : (A = 0 \/ recs[i] >= A)
           THEN CHOOSE i \in 1..N : (A = 0 \/ recs[i] >= A) /\ \A j \in 1..N : (A = 0 \/ recs[j] >= A) => i <= j
           ELSE N + 1
Beyond(t) == IF B = 99 THEN FALSE ELSE IF JBEFORE = "inclusive" THEN t > B ELSE t >= B
RECURSIVE JWalk(_)
JWalk(i) == IF i > N THEN <<>> ELSE IF Beyond(recs[i]) THEN <<>> ELSE <<i>> \o JWalk(i + 1)
JR == JWalk(SeekIdx)
JEmit == SortBy({i \in 1..N : InWin(recs[i])})   \* for monotone input: enumeration order restricted to the window

\* ---------------------------------------------------------------- properties (evaluated on every initial state)
SeqsUpTo(S, n) == UNION {[1..k -> S] : k \in 0..n}
Init == /\ recs \in SeqsUpTo(Times \cup {0}, MaxN)
        /\ A \in Times \cup {0} /\ B \in Times \cup {99}
        /\ (A = 0 \/ B = 99 \/ A <= B)
Next == UNCHANGED vars
Spec == Init /\ [][Next]_vars

FixedStructCorrect == FS = Emit
EvtxCorrect == (\A i \in 1..N : recs[i] # 0) => EV = Emit
JournalCorrect == (Monotone /\ \A i \in 1..N : recs[i] # 0) => JR = JEmit
\* every selected record exactly once, nothing else
ExactlyOnce(s) == /\ \A i \in Sel : Cardinality({k \in 1..Len(s) : s[k] = i}) = 1
                  /\ \A k \in 1..Len(s) : s[k] \in Sel
FixedStructOnce == ExactlyOnce(FS)
=============================================================================
