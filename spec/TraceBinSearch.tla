--------------------------- MODULE TraceBinSearch ---------------------------
(* I->S: the probe sequence (try_fo, fo_a, fo_b) recorded by the "Probe" hook in                 *)
(* find_sysline_at_datetime_filter_binary_search must be a path of BinSearch.tla for the same    *)
(* file and filter; the message finally returned must be the one the model returns.              *)
(* Records: {"ev":"Reset","file":[[hlen,clen,dt],..],"flt":n} {"ev":"Probe","try":..,"a":..,"b":..} *)
(*          {"ev":"Result","res":index or 0}                                                      *)
EXTENDS BinSearch, Json, IOUtils, TLCExt
Rec == ndJsonDeserialize(IOEnv.TRACE)
VARIABLE l
tvars == <<vars, l>>
R == Rec[l]
More == l <= Len(Rec)
TInit == /\ l = 1 /\ TLCSet(1, 1)
         /\ file = <<>> /\ flt = 0 /\ start = 0 /\ pc = "done" /\ try_fo = 0 /\ try_last = 0 /\ fo_a = 0 /\ fo_b = 0
         /\ cand = 0 /\ res = 0 /\ iters = 0
TReset == /\ More /\ R.ev = "Reset" /\ l' = l + 1
          /\ file' = R.file /\ flt' = R.flt /\ start' = 0 /\ pc' = "loop" /\ try_fo' = 0 /\ try_last' = 0
          /\ fo_a' = 0 /\ fo_b' = FileSz(R.file) /\ cand' = 0 /\ res' = -1 /\ iters' = 0
TProbe == /\ More /\ R.ev = "Probe" /\ pc = "loop"
          /\ try_fo = R.try /\ fo_a = R.a /\ fo_b = R.b
          /\ Loop /\ l' = l + 1
TSilent == More /\ (TailF \/ TailD) /\ UNCHANGED l
TResult == /\ More /\ R.ev = "Result" /\ pc = "done" /\ Composite = R.res /\ l' = l + 1 /\ UNCHANGED vars
TNext == TReset \/ TProbe \/ TSilent \/ TResult
TSpec == TInit /\ [][TNext]_tvars
Progress == (IF l > TLCGet(1) THEN TLCSet(1, l) ELSE TRUE)
Accepted == \/ TLCGet(1) = Len(Rec) + 1
            \/ PrintT(<<"UNMATCHED", TLCGet(1), Len(Rec)>>) /\ FALSE
TCorrect == (pc = "done" /\ file # <<>>) => Composite = Oracle
=============================================================================
