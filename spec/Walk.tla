-------------------------------- MODULE Walk --------------------------------
(***************************************************************************)
(* C15.  Naming a directory is equivalent to naming, in sorted path order, *)
(* every regular file beneath it (links followed) whose name is not of a   *)
(* known non-log type; paths given on standard input via `-` are           *)
(* equivalent to the same paths given as arguments in place of the `-`.    *)
(*                                                                         *)
(* A tree is a prefix-closed set of paths over NAMES (a path is a sequence *)
(* of name indices; the index order is the byte order of the concrete      *)
(* names); every leaf has a kind: "log", "gz" (compressed log), "nonlog"   *)
(* (known non-log suffix), "dir" (empty directory).  Optionally one        *)
(* symbolic link LINK at the top level points to an existing node.         *)
(* Expand = the files beneath the root in component-wise sorted order,     *)
(* the link's target content appearing under the link's own name.          *)
(* TLC enumerates the trees and argv/stdin splits with the expansion.      *)
(***************************************************************************)
EXTENDS Naturals, Sequences, FiniteSets, TLC

CONSTANTS NAMES,     \* e.g. 1..3
          MaxNodes,
          LINK       \* name index of the optional top-level symlink (greater than all NAMES)

Paths1 == {<<a>> : a \in NAMES}
Paths2 == {<<a, b>> : a \in NAMES, b \in NAMES}
U == Paths1 \cup Paths2
Kinds == {"log", "gz", "nonlog", "dir"}

Prefix(p) == IF Len(p) = 1 THEN <<>> ELSE SubSeq(p, 1, Len(p) - 1)
Closed(S) == \A p \in S : Len(p) = 1 \/ Prefix(p) \in S
Leaves(S) == {p \in S : ~\E q \in S : Len(q) = Len(p) + 1 /\ Prefix(q) = p}

VARIABLES S, kind, link   \* link: <<>> (none) or the path the symlink points to
vars == <<S, kind, link>>

Init == /\ S \in {T \in SUBSET U : T # {} /\ Closed(T) /\ Cardinality(T) <= MaxNodes}
        /\ kind \in [Leaves(S) -> Kinds]
        /\ link \in {<<>>} \cup S
        \* a leaf at depth 2 may be anything; an interior node is a directory by construction
Next == UNCHANGED vars
Spec == Init /\ [][Next]_vars

IsFile(p) == p \in Leaves(S) /\ kind[p] # "dir"
\* component-wise order
RECURSIVE PLess(_, _)
PLess(p, q) == IF p = <<>> THEN q # <<>> ELSE IF q = <<>> THEN FALSE
               ELSE IF p[1] # q[1] THEN p[1] < q[1] ELSE PLess(Tail(p), Tail(q))
\* files as seen by the walk: real paths, plus the link's target content under <<LINK>> \o rest
Under(t) == {p \in S : Len(p) >= Len(t) /\ SubSeq(p, 1, Len(t)) = t}
Linked == IF link = <<>> THEN {} ELSE {<<LINK>> \o SubSeq(p, Len(link) + 1, Len(p)) : p \in {q \in Under(link) : IsFile(q)}}
LinkKind(v) == kind[link \o SubSeq(v, 2, Len(v))]
Seen == {p \in S : IsFile(p)} \cup Linked
KindOf(v) == IF v \in Linked /\ v[1] = LINK THEN LinkKind(v) ELSE kind[v]
Wanted == {v \in Seen : KindOf(v) # "nonlog"}
RECURSIVE Sorted(_)
Sorted(T) == IF T = {} THEN <<>>
             ELSE LET m == CHOOSE x \in T : \A y \in T \ {x} : PLess(x, y) IN <<m>> \o Sorted(T \ {m})
Expand == Sorted(Wanted)
ExpandAll == Sorted(Seen)     \* what is attempted when every file is named explicitly

\* Expand is a sorted duplicate-free listing of exactly the wanted files
ExpandOk == /\ \A i \in 1..Len(Expand) - 1 : PLess(Expand[i], Expand[i + 1])
            /\ {Expand[i] : i \in 1..Len(Expand)} = Wanted
Dump == PrintT(<<"TREE", S, {<<p, kind[p]>> : p \in Leaves(S)}, link, Expand, ExpandAll>>)

\* stdin splice: argv with one `-` at position k, stdin lines m
Splice(argv, k, m) == SubSeq(argv, 1, k - 1) \o m \o SubSeq(argv, k + 1, Len(argv))
=============================================================================
