------------------------------- MODULE CliDt -------------------------------
(***************************************************************************)
(* C14.  Meaning of the --dt-after / --dt-before arguments.                *)
(* An argument is absent, absolute, or relative:                           *)
(*   abs  [kind |-> "abs", loc, zoned, off]  loc = date-time as written    *)
(*        (seconds; a bare date means 00:00:00), zoned = it carries its    *)
(*        own zone `off`, else it is read in the --tz-offset zone TZ;      *)
(*        instant = loc - (IF zoned THEN off ELSE TZ)                      *)
(*   epoch [kind |-> "epoch", s]            instant = s  (absolute, the    *)
(*        zone does not enter)                                             *)
(*   rel  [kind |-> "rel", at, d]  d = signed sum of the NwNdNhNmNs units; *)
(*        at = FALSE: relative to program start NOW (truncated to whole    *)
(*        seconds); at = TRUE ('@'): relative to the OTHER bound           *)
(* Evaluation (cli_process_args): an '@' argument is evaluated second;     *)
(* both '@' -> rejected; unparseable -> rejected; after > before ->        *)
(* rejected.  `-a X -b @+D` equals `-a X -b X+D`.                          *)
(* TLC checks the evaluation-order state machine against the declarative   *)
(* meaning on every pair of abstract arguments and emits the pairs.        *)
(***************************************************************************)
EXTENDS Integers, TLC

CONSTANTS TZ, NOW, Locs, Offs, Durs

None == [kind |-> "none"]
Abs == [kind : {"abs"}, loc : Locs, zoned : BOOLEAN, off : Offs]
Epoch == [kind : {"epoch"}, s : Locs]
Rel == [kind : {"rel"}, at : BOOLEAN, d : Durs]
Bad == [kind |-> "bad"]
Args == {None, Bad} \cup Abs \cup Epoch \cup Rel

\* declarative meaning of one argument given the instant of the other bound (or -1000000 when unavailable)
NA == -1000000
Mean(x, other) ==
  CASE x.kind = "none"  -> NA
    [] x.kind = "abs"   -> x.loc - (IF x.zoned THEN x.off ELSE TZ)
    [] x.kind = "epoch" -> x.s
    [] x.kind = "rel"   -> IF x.at THEN (IF other = NA THEN NA ELSE other + x.d) ELSE NOW + x.d
    [] OTHER            -> NA
IsAt(x) == x.kind = "rel" /\ x.at

\* declarative result: <<"ok", A, B>> or <<"reject">>
Resolve(a, b) ==
  IF a.kind = "bad" \/ b.kind = "bad" THEN <<"reject">>
  ELSE IF IsAt(a) /\ IsAt(b) THEN <<"reject">>
  ELSE IF IsAt(a) /\ b.kind = "none" THEN <<"reject">>
  ELSE IF IsAt(b) /\ a.kind = "none" THEN <<"reject">>
  ELSE LET A0 == IF IsAt(a) THEN Mean(a, Mean(b, NA)) ELSE Mean(a, NA)
           B0 == IF IsAt(b) THEN Mean(b, Mean(a, NA)) ELSE Mean(b, NA) IN
       IF A0 # NA /\ B0 # NA /\ A0 > B0 THEN <<"reject">> ELSE <<"ok", A0, B0>>

\* the evaluation-order machine
VARIABLES a, b, pc, va, vb, res
vars == <<a, b, pc, va, vb, res>>
Init == a \in Args /\ b \in Args /\ pc = "peek" /\ va = NA /\ vb = NA /\ res = <<>>
Peek == /\ pc = "peek"
        /\ IF a.kind = "bad" \/ b.kind = "bad" THEN pc' = "done" /\ res' = <<"reject">>
           ELSE IF IsAt(a) /\ IsAt(b) THEN pc' = "done" /\ res' = <<"reject">>
           ELSE IF IsAt(a) THEN pc' = "b_first" /\ UNCHANGED res
           ELSE pc' = "a_first" /\ UNCHANGED res
        /\ UNCHANGED <<a, b, va, vb>>
EvalAFirst == /\ pc = "a_first" /\ va' = Mean(a, NA) /\ pc' = "then_b" /\ UNCHANGED <<a, b, vb, res>>
ThenB == /\ pc = "then_b"
         /\ IF IsAt(b) /\ va = NA THEN pc' = "done" /\ res' = <<"reject">> /\ UNCHANGED vb
            ELSE vb' = Mean(b, va) /\ pc' = "check" /\ UNCHANGED res
         /\ UNCHANGED <<a, b, va>>
EvalBFirst == /\ pc = "b_first" /\ vb' = Mean(b, NA) /\ pc' = "then_a" /\ UNCHANGED <<a, b, va, res>>
ThenA == /\ pc = "then_a"
         /\ IF vb = NA THEN pc' = "done" /\ res' = <<"reject">> /\ UNCHANGED va
            ELSE va' = Mean(a, vb) /\ pc' = "check" /\ UNCHANGED res
         /\ UNCHANGED <<a, b, vb>>
Check == /\ pc = "check"
         /\ res' = IF va # NA /\ vb # NA /\ va > vb THEN <<"reject">> ELSE <<"ok", va, vb>>
         /\ pc' = "done" /\ UNCHANGED <<a, b, va, vb>>
Next == Peek \/ EvalAFirst \/ ThenB \/ EvalBFirst \/ ThenA \/ Check
Spec == Init /\ [][Next]_vars /\ WF_vars(Next)

MachineIsResolve == pc = "done" => res = Resolve(a, b)
\* `-a X -b @+D` equals `-a X -b X+D`
AtEquivalence == (pc = "done" /\ a.kind = "abs" /\ IsAt(b) /\ res[1] = "ok") => res[3] = res[2] + b.d
Terminates == <>(pc = "done")
=============================================================================
