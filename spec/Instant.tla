------------------------------ MODULE Instant ------------------------------
(***************************************************************************)
(* C04.  The instant a timestamp denotes.  Fields: year, month, day, hour, *)
(* minute, second, nanos, and a zone specification: a numeric UTC offset   *)
(* in minutes, or none (then the --tz-offset fallback applies; the same    *)
(* for ambiguous zone abbreviations).  Proleptic Gregorian calendar.       *)
(*   InstantOf = <<days since 1970-01-01, second of day, nanos>> in UTC    *)
(* (three components keep every number inside TLC's 32-bit integers).      *)
(* TLC checks the calendar lemmas on the whole range 1970..2099 (month     *)
(* lengths, leap rule, day numbering contiguous across month and year      *)
(* boundaries, offset application crossing midnight in both directions)    *)
(* and evaluates InstantOf on the abstract timestamps handed over as JSON, *)
(* so that the driver can compare the specification's answer with the      *)
(* program's and with an independent implementation.                       *)
(***************************************************************************)
EXTENDS Integers, Sequences, TLC, Json, IOUtils

Leap(y) == (y % 4 = 0 /\ y % 100 # 0) \/ y % 400 = 0
MonthLen(y, m) == CASE m \in {1, 3, 5, 7, 8, 10, 12} -> 31 [] m \in {4, 6, 9, 11} -> 30 [] OTHER -> IF Leap(y) THEN 29 ELSE 28
YearLen(y) == IF Leap(y) THEN 366 ELSE 365

RECURSIVE DaysBeforeYear(_)
DaysBeforeYear(y) == IF y = 1970 THEN 0 ELSE DaysBeforeYear(y - 1) + YearLen(y - 1)
RECURSIVE DaysBeforeMonth(_, _)
DaysBeforeMonth(y, m) == IF m = 1 THEN 0 ELSE DaysBeforeMonth(y, m - 1) + MonthLen(y, m - 1)
Days(y, m, d) == DaysBeforeYear(y) + DaysBeforeMonth(y, m) + (d - 1)

\* local wall-clock reading -> UTC: subtract the offset (minutes), carrying into the day number
InstantOf(t, fallback) ==
  LET off == IF t.zoned THEN t.off ELSE fallback
      sod == t.H * 3600 + t.M * 60 + t.S - off * 60
      dsh == IF sod < 0 THEN -1 ELSE IF sod >= 86400 THEN 1 ELSE 0 IN
  <<Days(t.y, t.m, t.d) + dsh, sod - dsh * 86400, t.n>>

\* ---- lemmas over the whole supported range
Years == 1970..2099
ContiguousMonths == \A y \in Years, m \in 1..11 : Days(y, m + 1, 1) = Days(y, m, MonthLen(y, m)) + 1
ContiguousYears == \A y \in 1970..2098 : Days(y + 1, 1, 1) = Days(y, 12, 31) + 1
LeapDays == /\ MonthLen(2000, 2) = 29 /\ MonthLen(2100, 2) = 28 /\ MonthLen(2024, 2) = 29 /\ MonthLen(2023, 2) = 28
            /\ Days(1970, 1, 1) = 0 /\ Days(2000, 3, 1) = 11017 /\ Days(2038, 1, 19) = 24855 /\ Days(2099, 12, 31) = 47481
OffsetCarry ==
  /\ InstantOf([y |-> 2024, m |-> 1, d |-> 1, H |-> 0, M |-> 30, S |-> 0, n |-> 0, zoned |-> TRUE, off |-> 60], 0) = <<Days(2023, 12, 31), 84600, 0>>
  /\ InstantOf([y |-> 2023, m |-> 12, d |-> 31, H |-> 23, M |-> 30, S |-> 0, n |-> 5, zoned |-> TRUE, off |-> -60], 0) = <<Days(2024, 1, 1), 1800, 5>>
  /\ InstantOf([y |-> 2024, m |-> 2, d |-> 29, H |-> 12, M |-> 0, S |-> 0, n |-> 0, zoned |-> FALSE, off |-> 0], 330) = <<Days(2024, 2, 29), 23400, 0>>

Stamps == JsonDeserialize(IOEnv.STAMPS)
VARIABLE k
Init == k = 0
Next == k < Len(Stamps) /\ k' = k + 1 /\ PrintT(<<"INSTANT", k + 1, InstantOf(Stamps[k + 1], Stamps[k + 1].fb)>>)
Spec == Init /\ [][Next]_k
Lemmas == ContiguousMonths /\ ContiguousYears /\ LeapDays /\ OffsetCarry
=============================================================================
