------------------------------- MODULE Decor -------------------------------
(***************************************************************************)
(* C13 / C19.  What is written to standard output for one message, as a    *)
(* sequence of tokens, given the decoration options:                       *)
(*   per line of the message:  [CLR] [FILE] [DT] LINE(j) [RST]             *)
(*   after the message:        [SEP]                                       *)
(*   after the last text message of a file that lacks a final newline: NL  *)
(* FILE = file name or path padded to the widest PRINTED name (when        *)
(* aligning) + prepend separator; DT = the message's instant in the        *)
(* requested zone and strftime format + prepend separator.  The field      *)
(* order (file, then datetime) and the separator are the same for every    *)
(* kind of message and every colour setting.                               *)
(* Strip removes FILE, DT, CLR, RST and SEP tokens.  TLC checks on the     *)
(* whole option matrix x kinds x 1..3 lines that Strip(Tokens) is the      *)
(* undecorated token sequence, that FILE precedes DT on every line, and    *)
(* the byte arithmetic used by --summary (C19): bytes(message) = sum of    *)
(* its tokens' lengths; total = sum over messages + separators + supplied  *)
(* newlines.  TLC also emits the option tuples for replay.                 *)
(***************************************************************************)
EXTENDS Naturals, Sequences, TLC

FileModes == {"none", "name", "path"}
ZoneModes == {"none", "utc", "local", "plus0530", "minus0800"}
Formats == {"default", "iso", "time6", "verbose"}      \* "verbose": a field of more than 40 bytes (names of day and month, microseconds, zone)
PSeps == {"colon", "bar", "spaced", "wide"}                \* "wide": a separator of several multi-byte characters
Seps == {"empty", "nl", "dashes", "tab"}
Colors == {"never", "always"}
Kinds == {"text", "record", "event", "entry"}

Opts == [file : FileModes, align : BOOLEAN, zone : ZoneModes, fmt : Formats, psep : PSeps, sep : Seps, color : Colors]

VARIABLES o, kind, nlines
vars == <<o, kind, nlines>>
Init == o \in Opts /\ kind \in Kinds /\ nlines \in 1..3
        /\ (kind = "record" => nlines = 1)
        /\ (o.zone = "none" => o.fmt = "default")        \* a format without a zone option is not a distinct case
        /\ (o.file = "none" => o.align = FALSE)
Next == UNCHANGED vars
Spec == Init /\ [][Next]_vars

LineTokens(j) ==
  (IF o.color = "always" THEN <<"CLR">> ELSE <<>>)
  \o (IF o.file # "none" THEN <<"FILE">> ELSE <<>>)
  \o (IF o.zone # "none" THEN <<"DT">> ELSE <<>>)
  \o <<"LINE">>
  \o (IF o.color = "always" THEN <<"RST">> ELSE <<>>)
RECURSIVE Lines(_)
Lines(j) == IF j > nlines THEN <<>> ELSE LineTokens(j) \o Lines(j + 1)
Tokens == Lines(1) \o (IF o.sep # "empty" THEN <<"SEP">> ELSE <<>>)

Deco == {"CLR", "RST", "FILE", "DT", "SEP"}
RECURSIVE Strip(_)
Strip(s) == IF s = <<>> THEN <<>> ELSE IF Head(s) \in Deco THEN Strip(Tail(s)) ELSE <<Head(s)>> \o Strip(Tail(s))
Plain == [j \in 1..nlines |-> "LINE"]

StripIsPlain == Strip(Tokens) = Plain
\* on every line FILE (when present) comes before DT (when present), both before LINE -- for every kind and colour
Pos(s, t) == CHOOSE i \in 1..Len(s) : s[i] = t
FileBeforeDate == (o.file # "none" /\ o.zone # "none") =>
                     LET lt == LineTokens(1) IN Pos(lt, "FILE") < Pos(lt, "DT") /\ Pos(lt, "DT") < Pos(lt, "LINE")
\* C19 byte arithmetic with abstract token lengths
Len1(t) == CASE t = "FILE" -> 7 [] t = "DT" -> 11 [] t = "LINE" -> 13 [] t = "SEP" -> 3 [] OTHER -> 0
RECURSIVE Bytes(_)
Bytes(s) == IF s = <<>> THEN 0 ELSE Len1(Head(s)) + Bytes(Tail(s))
ByteArithmetic == Bytes(Tokens) = nlines * ((IF o.file # "none" THEN 7 ELSE 0) + (IF o.zone # "none" THEN 11 ELSE 0) + 13)
                                  + (IF o.sep # "empty" THEN 3 ELSE 0)
Dump == (kind = "text" /\ nlines = 1) => PrintT(<<"OPTS", o.file, o.align, o.zone, o.fmt, o.psep, o.sep, o.color>>)
=============================================================================
