CONSTANTS N = 2 M = 3 DT = {1,2,3} CAP = 5 TMPW = {} SIG = FALSE SHAPES = {"ok"} DROPFIRST = TRUE
SPECIFICATION Spec
INVARIANTS AllPrintedAtEnd NoneUnreachable RetMeaning PendingLive ChanBound NoLeak
PROPERTIES PrintIsEarliest Terminates Exits
CHECK_DEADLOCK FALSE
