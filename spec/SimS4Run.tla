------------------------------ MODULE SimS4Run ------------------------------
(* Specification -> implementation: random behaviours of S4Run for a fixed   *)
(* ground truth DTS, dumped as the order of channel sends (S<w>), receives    *)
(* (R<w>) and prints (P<w>); the driver turns each into a turnstile plan.     *)
EXTENDS S4Run, TLCExt, Json, IOUtils
DTS == JsonDeserialize(IOEnv.DTSFILE)
VARIABLE hist
svars == <<vars, hist>>
SimInit == dts = DTS /\ shape = [w \in W |-> "ok"] /\ InitRest /\ hist = ""
Tag(s, w) == hist' = hist \o s \o ToString(w) \o " "
SimNext ==
  \/ \E w \in W : WSend(w) /\ Tag("S", w)
  \/ \E w \in W : WCreate(w) /\ Tag("C", w)
  \/ \E w \in W : WRegister(w) /\ Tag("G", w)
  \/ \E w \in W : (WReturn(w) \/ WCreateRefused(w) \/ WDrop(w)) /\ UNCHANGED hist
  \/ \E w \in W : WCheck(w) /\ Tag("L", w)
  \/ Sigint /\ Tag("X", 0)
  \/ HLock /\ UNCHANGED hist
  \/ HClear /\ Tag("K", 0)
  \/ HNtfLock /\ UNCHANGED hist
  \/ HRemove /\ Tag("V", 0)
  \/ HFlag /\ Tag("F", 0)
  \/ \E w \in W : CDequeue(w) /\ Tag("R", w)
  \/ \E w \in W : CDisc(w) /\ Tag("R", w)
  \/ (CEnterSel \/ CNone \/ CProcess \/ CAfter \/ CExitEarly) /\ UNCHANGED hist
  \/ CSweep /\ Tag("W", 0)
  \/ ProcExit /\ Tag("E", 0)
  \/ \E w \in W : CPrint /\ np'[w] # np[w] /\ Tag("P", w)
SimSpec == SimInit /\ [][SimNext]_svars
DumpAtEnd == exited => PrintT(<<"PLAN", hist>>)
=============================================================================
