---------------------------- MODULE BinSearch ----------------------------
(***************************************************************************)
(* C03.  Transcription of                                                  *)
(*   SyslineReader::find_sysline_at_datetime_filter_binary_search          *)
(* (the fo_a / fo_b / try_fo loop, the early return on the first probe,    *)
(* the Done branch and the final "same offset twice" disambiguation),      *)
(* composed with the range check of find_sysline_between_datetime_filters, *)
(* over an abstract file: a sequence of messages <<len, dt>> with          *)
(* non-decreasing dt (ties allowed).  find_sysline(fo) = the message that  *)
(* contains byte fo (Done if fo >= filesz).                                *)
(* TLC checks, for every file and every filter value placed before /       *)
(* between / on / after the message instants:                              *)
(*   Correct    the search returns FirstAtOrAfter(A) (the declarative      *)
(*              Oracle), Terminates, Bounded;                              *)
(*   WindowEq   the stage-3 walk with an upper bound B emits exactly       *)
(*              Select(file, A, B) = {m : A <= dt(m) <= B} in file order.  *)
(* find_sysline is the deterministic "containing message" function (see    *)
(* FindSet).  Assumption len >= 2 (a message holds a timestamp of >= 8 bytes): with   *)
(* 1-byte messages the last disambiguation step is wrong (TLC finds it).   *)
(***************************************************************************)
EXTENDS Integers, Sequences, FiniteSets, TLC
CONSTANTS MaxN, MinLen, MaxLen, MaxCont, DTs
VARIABLES file, flt, start, pc, try_fo, try_last, fo_a, fo_b, cand, res, iters
vars == <<file, flt, start, pc, try_fo, try_last, fo_a, fo_b, cand, res, iters>>

RECURSIVE SumLen(_, _)
SumLen(f, k) == IF k = 0 THEN 0 ELSE f[k][1] + f[k][2] + SumLen(f, k - 1)
Beg(f, i) == SumLen(f, i - 1)
End(f, i) == SumLen(f, i) - 1        \* inclusive last byte
FileSz(f) == SumLen(f, Len(f))
Dt(f, i) == f[i][3]
NonDecr(f) == \A i \in 1..Len(f) - 1 : f[i][3] <= f[i + 1][3]
\* a message is <<head line length, length of its continuation lines, dt>>
Files == {f \in UNION {[1..n -> (MinLen..MaxLen) \X (0..MaxCont) \X DTs] : n \in 1..MaxN} : NonDecr(f)}
\* index of sysline containing fo, 0 if none (Done)
Find(f, fo) == IF fo >= FileSz(f) THEN 0 ELSE CHOOSE i \in 1..Len(f) : Beg(f, i) <= fo /\ fo <= End(f, i)
\* what find_sysline(fo) answers: the message that CONTAINS fo, also when fo lies in one of its
\* continuation lines (measured on the real SyslineReader, cold and warm: it walks back to the head line).
\* The search is NOT robust against the other conceivable answer ("the next message / Done" for a probe in
\* a continuation line): with FindSet(f, fo) = {containing, next} TLC finds a 3-message file
\* <<24,0,1>>,<<24,0,2>>,<<24,80,3>>, filter = 3, where a Done answer at probe 87 loses the last message.
FindSet(f, fo) == {Find(f, fo)}
IsLast(f, i) == i = Len(f)
Min(a, b) == IF a < b THEN a ELSE b
\* declarative answer: first sysline at or after `start` offset whose dt >= flt ; 0 if none
Oracle == LET s == Find(file, start)
              cands == {i \in 1..Len(file) : s # 0 /\ i >= s /\ Dt(file, i) >= flt}
          IN IF cands = {} THEN 0 ELSE CHOOSE i \in cands : \A j \in cands : i <= j

Init == /\ file \in Files /\ flt \in DTs \cup {0, 99}
        /\ start \in {0}     \* stage 2 always searches from offset 0; stage 3 from the next message
        /\ pc = "loop" /\ try_fo = start /\ try_last = start /\ fo_a = start
        /\ fo_b = FileSz(file) /\ cand = 0 /\ res = -1 /\ iters = 0

Half == fo_a' + ((fo_b' - fo_a') \div 2)
Loop ==
  /\ pc = "loop"
  /\ iters' = iters + 1
  /\ \E i \in FindSet(file, try_fo) :
     IF i # 0 THEN
        IF Dt(file, i) >= flt THEN      \* OccursAtOrAfter
           IF try_fo = start THEN /\ res' = i /\ pc' = "done" /\ UNCHANGED <<try_fo, try_last, fo_a, fo_b, cand>>
           ELSE /\ try_last' = try_fo /\ fo_b' = Min(Beg(file, i), try_fo) /\ fo_a' = fo_a
                /\ try_fo' = Half /\ cand' = i /\ pc' = "tail" /\ UNCHANGED res
        ELSE                            \* OccursBefore
                /\ try_last' = try_fo /\ fo_a' = Min(End(file, i), fo_b) /\ fo_b' = fo_b
                /\ try_fo' = Half /\ cand' = i /\ pc' = "tail" /\ UNCHANGED res
     ELSE  \* Done
                /\ try_last' = try_fo /\ fo_a' = fo_a /\ fo_b' = fo_b /\ try_fo' = Half
                /\ pc' = "taild" /\ UNCHANGED <<cand, res>>
  /\ UNCHANGED <<file, flt, start>>

\* tail of loop after a Found
TailF ==
  /\ pc = "tail"
  /\ IF try_fo # try_last THEN pc' = "loop" /\ UNCHANGED res
     ELSE LET i == cand IN
          IF IsLast(file, i) /\ Beg(file, i) < try_fo THEN res' = 0 /\ pc' = "done"
          ELSE IF Beg(file, i) < try_fo THEN
                 LET n == i + 1 IN   \* find_sysline(fo_next) ; exists because i is not last
                 LET ci == Dt(file, i) >= flt   cn == Dt(file, n) >= flt IN
                   IF ~ci THEN res' = n /\ pc' = "done"              \* (Before,Before) or (Before,AtOrAfter)
                   ELSE IF ci /\ cn THEN res' = i /\ pc' = "done"
                   ELSE res' = 0 /\ pc' = "done"                     \* unhandled tuple -> break -> Done
               ELSE res' = i /\ pc' = "done"
  /\ UNCHANGED <<file, flt, start, try_fo, try_last, fo_a, fo_b, cand, iters>>
\* tail of loop after a Done
TailD ==
  /\ pc = "taild"
  /\ IF try_fo = try_last THEN res' = 0 /\ pc' = "done"
     ELSE pc' = "loop" /\ UNCHANGED res
  /\ UNCHANGED <<file, flt, start, try_fo, try_last, fo_a, fo_b, cand, iters>>

\* ---- the window: stage-3 walk from the search result while dt <= B  vs  the declarative selection
Select(f, a, b) == {i \in 1..Len(f) : a <= Dt(f, i) /\ Dt(f, i) <= b}
RECURSIVE Walk(_, _, _)
Walk(f, i, b) == IF i = 0 \/ i > Len(f) THEN {} ELSE IF Dt(f, i) > b THEN {} ELSE {i} \cup Walk(f, i + 1, b)
\* for every upper bound: walking from the declarative start selects exactly the window
WindowEq == \A b \in DTs \cup {0, 99} : Walk(file, Oracle, b) = Select(file, flt, b)

Next == Loop \/ TailF \/ TailD
Spec == Init /\ [][Next]_vars /\ WF_vars(Next)
Composite == IF res > 0 /\ Dt(file, res) < flt THEN 0 ELSE res
Correct == pc = "done" => Composite = Oracle
Bounded == iters <= 40
OrderAB == fo_a <= fo_b
Terminates == <>(pc = "done")
==========================================================================
