---------------------------- MODULE OrderedDump ----------------------------
(* S->I: every instance of Ordered.tla with the emission the specification prescribes. *)
EXTENDS Ordered
DumpFS == PrintT(<<"INST", recs, A, B, Emit>>)
DumpEV == PrintT(<<"INST", recs, A, B, EV>>)
=============================================================================
