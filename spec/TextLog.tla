------------------------------ MODULE TextLog ------------------------------
(***************************************************************************)
(* A text log as the readers see it: a sequence of lines, some of which    *)
(* begin with a timestamp ("dated").  A message ("sysline") is a dated     *)
(* line plus the undated lines that follow it.                             *)
(*                                                                         *)
(* Part 1: declarative definitions (Msgs, Printed, FindLine, FindSysline)  *)
(*         and the tiling theorem checked by TLC on every abstract file.   *)
(* Part 2: ReaderAPI -- the public find_* calls over an abstract cache     *)
(*         state.  The RESULT of every call is a function of the file and  *)
(*         the offset only; the cache state exists so that TLC enumerates  *)
(*         call sequences modulo cache history.  TLC dumps one shortest    *)
(*         call sequence per reachable cache state, with the expected      *)
(*         result of every call; the harness replays them on the real      *)
(*         LineReader / SyslineReader at many byte layouts and block sizes.*)
(***************************************************************************)
EXTENDS Naturals, Sequences, FiniteSets, TLC

CONSTANTS MaxLines,   \* files have 1..MaxLines lines
          MaxCalls,   \* bound on the length of a call sequence
          INBLOCK     \* TRUE: call sequences may contain the in-block variants

Kinds == {"D", "U"}                       \* dated / undated line
Files == UNION {[1..n -> Kinds] : n \in 1..MaxLines}

VARIABLES file,     \* sequence of Kinds
          nl,       \* TRUE: the last line ends with a newline
          cl,       \* lines known to the LineReader (indices)
          cs,       \* messages known to the SyslineReader (index of their head line)
          path      \* call sequence so far: << <<op, line, pos>> ... >>

vars == <<file, nl, cl, cs, path>>
view == <<file, nl, cl, cs>>

N == Len(file)
Dated(i) == file[i] = "D"
DatedIdx == {i \in 1..N : Dated(i)}

-----------------------------------------------------------------------------
(* Part 1                                                                    *)

\* head line of the message that line i belongs to (0: before the first dated line)
HeadOf(i) == IF \E h \in DatedIdx : h <= i
             THEN CHOOSE h \in DatedIdx : h <= i /\ \A g \in DatedIdx : g <= i => g <= h
             ELSE 0
\* last line of the message whose head is h
LastOf(h) == IF \E g \in DatedIdx : g > h
             THEN (CHOOSE g \in DatedIdx : g > h /\ \A k \in DatedIdx : k > h => g <= k) - 1
             ELSE N
\* the first dated line at or after line i (0: none)
NextHead(i) == IF \E h \in DatedIdx : h >= i
               THEN CHOOSE h \in DatedIdx : h >= i /\ \A g \in DatedIdx : g >= i => h <= g
               ELSE 0

\* messages as <<first line, last line>>, in file order
Msgs == {<<h, LastOf(h)>> : h \in DatedIdx}

\* C02: the messages tile [first dated line, last line] without gap or overlap
Tiling ==
  /\ \A m \in Msgs : m[1] <= m[2]
  /\ \A i \in 1..N : (HeadOf(i) # 0) <=> (\E m \in Msgs : m[1] <= i /\ i <= m[2])
  /\ \A m1, m2 \in Msgs : (m1 # m2) => (m1[2] < m2[1] \/ m2[2] < m1[1])
  /\ \A i \in 1..N : HeadOf(i) # 0 => Cardinality({m \in Msgs : m[1] <= i /\ i <= m[2]}) = 1

\* what the program prints for this file: lines FirstDated..N (plus a newline if nl = FALSE)
FirstDated == NextHead(1)
PrintedLines == IF FirstDated = 0 THEN {} ELSE FirstDated..N

\* find_line(fo) for fo inside line i: that line.
\* find_sysline(fo) for fo inside line i: the message that contains line i (the reader walks back to the
\* head line), or, for undated lines before the first dated line, the first message (0 = Done: no dated
\* line at all).  A function of (file, fo) only -- no cache history OF THE KIND THE PROGRAM PRODUCES may change
\* it: find_line / find_sysline calls at any offsets, preceded by the block-zero scan (ScanIB below).
\* (Measured: in-block calls at arbitrary cold offsets -- which the program never makes -- can teach the reader
\* a message cut off at a block end, see DESIGN.md 16.8; the scan discipline is therefore part of the model.)
FindLine(i) == i
FindSysline(i) == IF HeadOf(i) # 0 THEN HeadOf(i) ELSE NextHead(i)
FindSyslineAllowed(i) == {FindSysline(i)}

-----------------------------------------------------------------------------
(* Part 2: ReaderAPI                                                         *)

Pos == {"b", "m", "e"}                    \* first / middle / last byte of a line
Ops == {"line", "sysline"}

Init ==
  /\ file \in Files
  /\ nl \in BOOLEAN
  /\ cl = {} /\ cs = {} /\ path = <<>>

\* LineReader.find_line at a byte of line i: the line becomes known
CallLine(i, p) ==
  /\ cl' = cl \cup {i}
  /\ cs' = cs
  /\ path' = Append(path, <<"line", i, p, FindLine(i)>>)

\* SyslineReader.find_sysline at a byte of line i: scans lines i.. up to one past the end of the
\* message found (the line that terminates it is parsed too)
CallSysline(i, p) ==
  LET h == FindSysline(i)
      firstScanned == IF h = 0 \/ h > i THEN i ELSE h
      lastScanned == IF h = 0 THEN N ELSE IF LastOf(h) < N THEN LastOf(h) + 1 ELSE N IN
  /\ cl' = cl \cup (firstScanned..lastScanned)
  /\ cs' = IF h = 0 THEN cs ELSE cs \cup {h}
  /\ path' = Append(path, <<"sysline", i, p, h>>)

\* the in-block variants (find_line_in_block / find_sysline_in_block) answer only from the block the offset lies
\* in, so what they find depends on the block size.  The program uses them in one way only (SyslogProcessor::
\* blockzero_analysis_lines / _syslines): as the first calls on a file, from offset 0, each call at the `next`
\* offset of the previous answer, until Done or k answers.  ScanIB is that scan as one step: it may teach the
\* reader any prefix 1..j of the lines and any of the messages headed in that prefix -- or nothing -- and it
\* must not change the answer of any later find_line / find_sysline call.
ScanIB(op, k) ==
  /\ INBLOCK /\ path = <<>>
  /\ \E j \in 0..N :
       /\ cl' = 1..j
       /\ cs' \in (IF op = "line" THEN {{}} ELSE SUBSET {h \in 1..j : Dated(h)})
  /\ path' = <<(<<(IF op = "line" THEN "scanline" ELSE "scansys"), k, "b", 0>>)>>

\* calls at and past the end of file: Done, nothing learned
CallEof(op, k) ==
  /\ UNCHANGED <<cl, cs>>
  /\ path' = Append(path, <<op, N + k, "b", 0>>)

Next ==
  /\ Len(path) < MaxCalls
  /\ UNCHANGED <<file, nl>>
  /\ \/ \E i \in 1..N, p \in Pos : CallLine(i, p) \/ CallSysline(i, p)
     \/ \E op \in Ops, k \in 1..3 : ScanIB(op, k)
     \/ \E op \in Ops, k \in {1, 2} : CallEof(op, k)

Spec == Init /\ [][Next]_vars

\* every reachable abstract cache state is dumped once (VIEW hides `path`), with the shortest call
\* sequence that reaches it; the driver appends every call to it (transition cover)
Dump == PrintT(<<"STATE", file, nl, path>>)

\* expectations of all single calls, for the driver
Expect == [i \in 1..N |-> <<FindLine(i), FindSysline(i), IF FindSysline(i) = 0 THEN 0 ELSE LastOf(FindSysline(i)),
                           {<<h, IF h = 0 THEN 0 ELSE LastOf(h)>> : h \in FindSyslineAllowed(i)}>>]
DumpExpect == (path = <<>>) => PrintT(<<"FILE", file, nl, Expect>>)

TilingInv == Tiling
CacheSane == cs \subseteq DatedIdx /\ cl \subseteq 1..N
=============================================================================
