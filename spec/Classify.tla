------------------------------ MODULE Classify ------------------------------
(***************************************************************************)
(* C16.  Which reader handles a file depends only on its name.  A name is  *)
(* junk prefix + dot-separated components + junk suffix.  Reading the      *)
(* components from the right: numeric and unrecognised components are      *)
(* skipped, a compression word selects the container, `tar` makes it an    *)
(* archive, the first recognised type word selects the reader, a known     *)
(* non-log word makes it unparsable (a file named explicitly is then read  *)
(* as text), and a name with no recognised word is text.  Letter case and  *)
(* junk characters (~ - , ? ; and leading .) never matter.                 *)
(*                                                                         *)
(* Written from the documentation / property statement, not from the code. *)
(* TLC enumerates every name up to MaxC components over a vocabulary with  *)
(* one or more words per class, checks termination (the recursion is       *)
(* structural) and the invariance lemmas, and emits each name with its     *)
(* class for replay through the real path_to_filetype.                     *)
(***************************************************************************)
EXTENDS Naturals, Sequences, TLC

CONSTANTS MaxC, Vocab

UtmpW == {"utmp", "wtmp", "btmp"}
UtmpxW == {"utmpx", "wtmpx", "btmpx"}
TypeKind(w) ==
  CASE w \in UtmpW -> "utmp" [] w \in UtmpxW -> "utmpx" [] w = "lastlog" -> "lastlog" [] w = "lastlogx" -> "lastlogx"
    [] w = "acct" -> "acct" [] w = "pacct" -> "pacct" [] w = "journal" -> "journal" [] w = "evtx" -> "evtx"
    [] w \in {"log", "txt", "text"} -> "text" [] OTHER -> "none"
IsType(w) == TypeKind(w) # "none"
Compress == {"gz", "gzip", "bz2", "xz", "xzip", "lz4"}
ContOf(w) == CASE w \in {"gz", "gzip"} -> "gz" [] w = "bz2" -> "bz2" [] w \in {"xz", "xzip"} -> "xz" [] w = "lz4" -> "lz4"
Numeric == {"1", "20230101", "007"}
NonLog == {"bin", "png", "dll", "zip", "exe", "so"}
\* words that are recognised only as the WHOLE (bare) name
BareText == {"messages", "syslog", "dmesg", "history", "kernlog", "log"}
BareKind(w) == IF w \in BareText THEN "text"
               ELSE IF IsType(w) /\ w # "evtx" /\ w \notin {"txt", "text"} THEN TypeKind(w) ELSE "text"

\* <<reader, container>>; reader "unparsable" = known non-log type (an explicitly named file is read as text)
RECURSIVE Cl(_, _)
Cl(cs, cont) ==
  IF Len(cs) = 0 THEN <<"text", cont>>
  ELSE LET last == cs[Len(cs)]
           rest == SubSeq(cs, 1, Len(cs) - 1) IN
       IF Len(cs) = 1 THEN <<BareKind(last), cont>>
       ELSE CASE last \in Numeric  -> Cl(rest, cont)
              [] last \in Compress -> Cl(rest, ContOf(last))
              [] last = "tar"      -> <<"tar", cont>>
              [] IsType(last)      -> <<TypeKind(last), cont>>
              [] last \in NonLog   -> <<"unparsable", cont>>
              [] OTHER             -> Cl(rest, cont)
Classify(cs) == Cl(cs, "plain")

Names == UNION {[1..n -> Vocab] : n \in 1..MaxC}
\* the property speaks of ONE compression suffix; names with several are outside it
OneCompress(cs) == \A i, j \in 1..Len(cs) : (cs[i] \in Compress /\ cs[j] \in Compress) => i = j
\* a bare `evtx` / `txt` / `tar` / compression word as the whole stem is an edge the documentation leaves open
StemOk(cs) == cs[1] \notin ({"evtx", "txt", "text", "tar"} \cup Compress \cup NonLog \cup Numeric)

VARIABLE name
Init == name \in {cs \in Names : OneCompress(cs) /\ StemOk(cs)}
Next == UNCHANGED name
Spec == Init /\ [][Next]_name

Insert(cs, pos, w) == SubSeq(cs, 1, pos - 1) \o <<w>> \o SubSeq(cs, pos, Len(cs))
\* inserting a numeric or unrecognised component anywhere after the stem does not change the class,
\* provided it does not separate... (it never does: every rule looks at one component at a time)
Unknown == {"old", "foo"}
InvarianceInsert ==
  \A pos \in 2..(Len(name) + 1), w \in Numeric \cup Unknown :
     Len(name) < MaxC => Classify(Insert(name, pos, w)) = Classify(name)
\* the reader never depends on the container and vice versa: adding a compression suffix at the end of a name that
\* has none changes only the container
InvarianceCompress ==
  (\A i \in 1..Len(name) : name[i] \notin Compress) =>
     \A w \in Compress : Classify(name \o <<w>>)[1] = Classify(name)[1] /\ Classify(name \o <<w>>)[2] = ContOf(w)
Dump == PrintT(<<"NAME", name, Classify(name)>>)
=============================================================================
