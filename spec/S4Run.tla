------------------------------- MODULE S4Run -------------------------------
(***************************************************************************)
(* The run of `s4`: one worker thread per source, one bounded channel per  *)
(* worker, the coordinator ("printing") thread of `processing_loop`, the   *)
(* ctrlc handler thread, temp files of extracted journal/evtx sources and  *)
(* process exit.  Shaped like src/bin/s4.rs: one action per critical       *)
(* section / linearisation point.                                          *)
(*                                                                         *)
(* Sources are PathIds 1..N in command-line / sorted-walk order.  The      *)
(* ground truth of a source w is `dts[w]` (instants of its messages in the *)
(* order the reader emits them) and `shape[w]`:                            *)
(*   "ok"     FileInfo(ok), msgs, FileSummary(ok)                          *)
(*   "fierr"  FileInfo(err), FileSummary(stub)          (open/size error)  *)
(*   "sumerr" FileInfo(ok), msgs, FileSummary(err)      (mid-stream error) *)
(* A script position p in 1..Len(dts[w])+2 : 1 = FileInfo, last = Summary. *)
(***************************************************************************)
EXTENDS Naturals, Sequences, FiniteSets, TLC

CONSTANTS N,      \* number of sources
          M,      \* max messages per source
          DT,     \* set of instants (naturals)
          CAP,    \* channel capacity (CHANNEL_CAPACITY in s4.rs)
          TMPW,   \* sources that are unpacked through a named temp file
          SIG,    \* TRUE: the environment may deliver one SIGINT at any time
          SHAPES, \* set of script shapes sources may take
          DROPFIRST, \* TRUE: a worker drops its reader (temp file) before sending FileSummary
          REGATOMIC, \* TRUE: a temp file is created and listed under one NAMED_TEMP_FILES lock,
                     \*       and the handler closes the list (no creation afterwards)
          EPIPE,     \* TRUE: a write to standard output may fail (`s4 ... | head`): the print path then
                     \*       disconnects that source's channel and carries on
          CHECKLOCKED, \* TRUE: the "list closed?" test of decompress_to_ntf is made while the NAMED_TEMP_FILES lock is held;
                     \*       FALSE: it is made before the lock is taken (check-then-act)
          SWEEP      \* TRUE: after processing_loop has returned, main closes NAMED_TEMP_FILES and removes every
                     \*       file still listed before the process exits (workers are not joined)

W == 1..N
\* where a temp-file worker starts
FirstPc == IF REGATOMIC /\ ~CHECKLOCKED THEN "chk" ELSE "create"

VARIABLES dts, shape,       \* ground truth (chosen in Init, never changes)
          wpc,              \* worker pc: "chk" (only when ~CHECKLOCKED),"create","register","run","ret"
          wi,               \* number of script positions handed to send()
          ri,               \* number of datums the coordinator dequeued
          closed,           \* sender dropped (thread returned)
          rdrop,            \* reader dropped (temp file unlinked by worker)
          live,             \* keys of MAP_PATHID_CHANRECVDATUM (receivers alive)
          pending,          \* map_pathid_datum: message index on hand, 0 = none
          fi, fic,          \* map_pathid_received_fileinfo, and "cleared"
          np,               \* number of messages of w printed so far
          cpc,              \* coordinator pc: "loop","sel","got","after","done" (processing_loop returned),"swept"
          got,              \* <<w, script position>> just dequeued (0 = RecvError)
          recvErr, errs,    \* chan_recv_err, error_count
          ret,              \* return value of processing_loop (TRUE = exit status 0)
          disk, listed,     \* temp files on disk / paths in NAMED_TEMP_FILES
          hpc,              \* handler pc: "idle","start","clear","ntf","remove","flag","done"
          exitEarly,        \* EXIT_EARLY
          ntfClosed,        \* NAMED_TEMP_FILES_CLOSED
          exited            \* the process is gone (no thread takes a step)

vars == <<dts, shape, wpc, wi, ri, closed, rdrop, live, pending, fi, fic, np, cpc, got,
          recvErr, errs, ret, disk, listed, hpc, exitEarly, ntfClosed, exited>>

-----------------------------------------------------------------------------
SeqsUpTo(S, n) == UNION {[1..k -> S] : k \in 0..n}

NMsg(w)      == IF shape[w] = "fierr" THEN 0 ELSE Len(dts[w])
ScriptLen(w) == NMsg(w) + 2
IsFI(w, p)   == p = 1
IsSum(w, p)  == p = ScriptLen(w)
IsMsg(w, p)  == p > 1 /\ p < ScriptLen(w)
MsgDt(w, i)  == dts[w][i]
FiOk(w)      == shape[w] # "fierr"
SumOk(w)     == shape[w] = "ok"

InitRest ==
  /\ wpc = [w \in W |-> IF w \in TMPW THEN FirstPc ELSE "run"]
  /\ wi = [w \in W |-> 0] /\ ri = [w \in W |-> 0]
  /\ closed = [w \in W |-> FALSE] /\ rdrop = [w \in W |-> FALSE]
  /\ live = W
  /\ pending = [w \in W |-> 0]
  /\ fi = [w \in W |-> FALSE] /\ fic = FALSE
  /\ np = [w \in W |-> 0]
  /\ cpc = "loop" /\ got = <<0, 0>>
  /\ recvErr = 0 /\ errs = 0 /\ ret = TRUE
  /\ disk = {} /\ listed = {}
  /\ hpc = "idle" /\ exitEarly = FALSE /\ ntfClosed = FALSE /\ exited = FALSE

Init ==
  /\ dts \in [W -> SeqsUpTo(DT, M)]
  /\ shape \in [W -> SHAPES]
  /\ InitRest

Alive == ~exited
InChan(w) == wi[w] - ri[w]          \* only meaningful while w \in live

-----------------------------------------------------------------------------
(* Worker threads (exec_*processor)                                          *)

\* the handler holds the NAMED_TEMP_FILES write lock from its removal pass to its end
HandlerHoldsNtf == hpc \in {"remove", "flag"}
\* a worker holds it between create and register when REGATOMIC
WorkerHoldsNtf == REGATOMIC /\ \E v \in W : wpc[v] = "register"

\* ~CHECKLOCKED: the "list closed?" test, made without the lock; the worker then queues for the lock
WCheck(w) ==
  /\ Alive /\ wpc[w] = "chk"
  /\ IF ntfClosed
       THEN /\ wpc' = [wpc EXCEPT ![w] = "run"]
            /\ shape' = [shape EXCEPT ![w] = "fierr"]
            /\ rdrop' = [rdrop EXCEPT ![w] = TRUE]
       ELSE /\ wpc' = [wpc EXCEPT ![w] = "create"]
            /\ UNCHANGED <<shape, rdrop>>
  /\ UNCHANGED <<dts, wi, ri, closed, live, pending, fi, fic, np, cpc, got,
                 recvErr, errs, ret, disk, listed, hpc, exitEarly, ntfClosed, exited>>

\* decompress_to_ntf: tempfile created on disk (REGATOMIC: under the lock, unless the list is closed)
WCreate(w) ==
  /\ Alive /\ wpc[w] = "create"
  /\ REGATOMIC => (~HandlerHoldsNtf /\ ~WorkerHoldsNtf /\ (CHECKLOCKED => ~ntfClosed))
  /\ disk' = disk \cup {w}
  /\ wpc' = [wpc EXCEPT ![w] = "register"]
  /\ UNCHANGED <<dts, shape, wi, ri, closed, rdrop, live, pending, fi, fic, np, cpc, got,
                 recvErr, errs, ret, listed, hpc, exitEarly, ntfClosed, exited>>

\* REGATOMIC: after the handler's pass no file is created; the worker reports an open error
WCreateRefused(w) ==
  /\ Alive /\ wpc[w] = "create" /\ REGATOMIC /\ CHECKLOCKED /\ ntfClosed /\ ~HandlerHoldsNtf /\ ~WorkerHoldsNtf
  /\ wpc' = [wpc EXCEPT ![w] = "run"]
  /\ shape' = [shape EXCEPT ![w] = "fierr"]
  /\ rdrop' = [rdrop EXCEPT ![w] = TRUE]
  /\ UNCHANGED <<dts, wi, ri, closed, live, pending, fi, fic, np, cpc, got,
                 recvErr, errs, ret, disk, listed, hpc, exitEarly, ntfClosed, exited>>

\* path pushed to NAMED_TEMP_FILES (needs its write lock unless already held)
WRegister(w) ==
  /\ Alive /\ wpc[w] = "register" /\ ~HandlerHoldsNtf
  /\ listed' = listed \cup {w}
  /\ wpc' = [wpc EXCEPT ![w] = "run"]
  /\ UNCHANGED <<dts, shape, wi, ri, closed, rdrop, live, pending, fi, fic, np, cpc, got,
                 recvErr, errs, ret, disk, hpc, exitEarly, ntfClosed, exited>>

\* reader (and its NamedTempFile) dropped
WDrop(w) ==
  /\ Alive /\ wpc[w] = "run" /\ w \in TMPW /\ ~rdrop[w]
  /\ IF DROPFIRST THEN wi[w] = ScriptLen(w) - 1 ELSE wi[w] = ScriptLen(w)
  /\ rdrop' = [rdrop EXCEPT ![w] = TRUE]
  /\ disk' = disk \ {w}
  /\ UNCHANGED <<dts, shape, wpc, wi, ri, closed, live, pending, fi, fic, np, cpc, got,
                 recvErr, errs, ret, listed, hpc, exitEarly, ntfClosed, exited>>

\* chan_send: the datum enters the channel (blocks while full); if the receiver
\* was dropped the send fails at once and the worker carries on
WSend(w) ==
  /\ Alive /\ wpc[w] = "run" /\ wi[w] < ScriptLen(w)
  /\ (DROPFIRST /\ w \in TMPW /\ wi[w] = ScriptLen(w) - 1) => rdrop[w]
  /\ (w \in live) => InChan(w) < CAP
  /\ wi' = [wi EXCEPT ![w] = @ + 1]
  /\ UNCHANGED <<dts, shape, wpc, ri, closed, rdrop, live, pending, fi, fic, np, cpc, got,
                 recvErr, errs, ret, disk, listed, hpc, exitEarly, ntfClosed, exited>>

\* thread returns: sender dropped
WReturn(w) ==
  /\ Alive /\ wpc[w] = "run" /\ wi[w] = ScriptLen(w)
  /\ (w \in TMPW) => rdrop[w]
  /\ wpc' = [wpc EXCEPT ![w] = "ret"]
  /\ closed' = [closed EXCEPT ![w] = TRUE]
  /\ UNCHANGED <<dts, shape, wi, ri, rdrop, live, pending, fi, fic, np, cpc, got,
                 recvErr, errs, ret, disk, listed, hpc, exitEarly, ntfClosed, exited>>

-----------------------------------------------------------------------------
(* Coordinator (processing_loop)                                             *)

WriteLocked == hpc \in {"clear", "ntf", "remove", "flag"}   \* handler holds MAP write lock
PendSet   == {w \in W : pending[w] # 0}
MustRecv  == Cardinality(live) # Cardinality(PendSet) \/ ~fic
Pollable  == {w \in live : pending[w] = 0}

\* loop top: exit_early_check!, decide between receiving and printing
CExitEarly ==
  /\ Alive /\ cpc = "loop" /\ exitEarly
  /\ cpc' = "done" /\ ret' = FALSE
  /\ UNCHANGED <<dts, shape, wpc, wi, ri, closed, rdrop, live, pending, fi, fic, np, got,
                 recvErr, errs, disk, listed, hpc, exitEarly, ntfClosed, exited>>

\* takes the read lock and enters select()
CEnterSel ==
  /\ Alive /\ cpc = "loop" /\ ~exitEarly /\ MustRecv /\ ~WriteLocked
  /\ cpc' = "sel"
  /\ UNCHANGED <<dts, shape, wpc, wi, ri, closed, rdrop, live, pending, fi, fic, np, got,
                 recvErr, errs, ret, disk, listed, hpc, exitEarly, ntfClosed, exited>>

\* select() returns a datum of w
CDequeue(w) ==
  /\ Alive /\ cpc = "sel" /\ w \in Pollable /\ InChan(w) > 0
  /\ ri' = [ri EXCEPT ![w] = @ + 1]
  /\ got' = <<w, ri[w] + 1>>
  /\ cpc' = "got"
  /\ UNCHANGED <<dts, shape, wpc, wi, closed, rdrop, live, pending, fi, fic, np,
                 recvErr, errs, ret, disk, listed, hpc, exitEarly, ntfClosed, exited>>

\* select() returns RecvError for w: disconnected and empty
CDisc(w) ==
  /\ Alive /\ cpc = "sel" /\ w \in Pollable /\ InChan(w) = 0 /\ closed[w]
  /\ got' = <<w, 0>>
  /\ cpc' = "got"
  /\ UNCHANGED <<dts, shape, wpc, wi, ri, closed, rdrop, live, pending, fi, fic, np,
                 recvErr, errs, ret, disk, listed, hpc, exitEarly, ntfClosed, exited>>

\* recv_many_chan returns None (nothing to poll): break
CNone ==
  /\ Alive /\ cpc = "sel" /\ Pollable = {}
  /\ cpc' = "after"
  /\ UNCHANGED <<dts, shape, wpc, wi, ri, closed, rdrop, live, pending, fi, fic, np, got,
                 recvErr, errs, ret, disk, listed, hpc, exitEarly, ntfClosed, exited>>

FicAfter(f) == fic \/ \A w \in W : f[w]

\* the received datum is processed, then the end-of-iteration disconnect under
\* the write lock
CProcess ==
  /\ Alive /\ cpc = "got" /\ ~WriteLocked
  /\ LET w == got[1]  p == got[2]
         disc == (p = 0) \/ IsSum(w, p)
         live2 == IF disc THEN live \ {w} ELSE live IN
     /\ fi' = IF p # 0 /\ IsFI(w, p) THEN [fi EXCEPT ![w] = TRUE] ELSE fi
     /\ fic' = FicAfter(fi')
     /\ pending' = IF p # 0 /\ IsMsg(w, p) THEN [pending EXCEPT ![w] = p - 1] ELSE pending
     /\ recvErr' = IF p = 0 THEN recvErr + 1 ELSE recvErr
     /\ errs' = IF p # 0 /\ IsSum(w, p) /\ ~SumOk(w) THEN errs + 1 ELSE errs
     /\ live' = live2
     /\ cpc' = IF live2 = {} THEN "after" ELSE "loop"
  /\ got' = <<0, 0>>
  /\ UNCHANGED <<dts, shape, wpc, wi, ri, closed, rdrop, np, ret, disk, listed, hpc,
                 exitEarly, ntfClosed, exited>>

\* coordinator's comparison: min_by over a BTreeMap keeps the first minimum
Less(w, v) == MsgDt(w, pending[w]) < MsgDt(v, pending[v])
              \/ (MsgDt(w, pending[w]) = MsgDt(v, pending[v]) /\ w < v)

CPrint ==
  /\ Alive /\ cpc = "loop" /\ ~exitEarly /\ ~MustRecv /\ ~WriteLocked
  /\ \E w \in PendSet :
       /\ \A v \in PendSet \ {w} : Less(w, v)
       /\ np' = [np EXCEPT ![w] = @ + 1]
       /\ pending' = [pending EXCEPT ![w] = 0]
  /\ cpc' = IF live = {} THEN "after" ELSE "loop"
  /\ UNCHANGED <<dts, shape, wpc, wi, ri, closed, rdrop, live, fi, fic, got,
                 recvErr, errs, ret, disk, listed, hpc, exitEarly, ntfClosed, exited>>

\* a print fails (closed pipe): the message is consumed, the source's channel is disconnected at the end of the
\* iteration (its worker's later sends fail at once); nothing is counted as printed
CPrintError ==
  /\ EPIPE /\ Alive /\ cpc = "loop" /\ ~exitEarly /\ ~MustRecv /\ ~WriteLocked
  /\ \E w \in PendSet :
       /\ \A v \in PendSet \ {w} : Less(w, v)
       /\ pending' = [pending EXCEPT ![w] = 0]
       /\ live' = live \ {w}
       /\ cpc' = IF live \ {w} = {} THEN "after" ELSE "loop"
  /\ UNCHANGED <<dts, shape, wpc, wi, ri, closed, rdrop, fi, fic, np, got,
                 recvErr, errs, ret, disk, listed, hpc, exitEarly, ntfClosed, exited>>

\* after the loop: exit_early_check!, summary, return value
CAfter ==
  /\ Alive /\ cpc = "after"
  /\ cpc' = "done"
  /\ ret' = (~exitEarly /\ recvErr = 0 /\ errs = 0)
  /\ UNCHANGED <<dts, shape, wpc, wi, ri, closed, rdrop, live, pending, fi, fic, np, got,
                 recvErr, errs, disk, listed, hpc, exitEarly, ntfClosed, exited>>

\* main, after processing_loop: remove_named_temp_files() -- takes the NAMED_TEMP_FILES write lock (waits for a
\* worker between create and register and for the handler), closes the list, removes what is listed
CSweep ==
  /\ Alive /\ cpc = "done" /\ SWEEP
  /\ ~HandlerHoldsNtf /\ ~WorkerHoldsNtf
  /\ disk' = disk \ listed
  /\ ntfClosed' = (ntfClosed \/ REGATOMIC)
  /\ cpc' = "swept"
  /\ UNCHANGED <<dts, shape, wpc, wi, ri, closed, rdrop, live, pending, fi, fic, np, got,
                 recvErr, errs, ret, listed, hpc, exitEarly, exited>>

\* main returns: the process exits, every other thread is killed where it is
ProcExit ==
  /\ Alive /\ cpc = (IF SWEEP THEN "swept" ELSE "done")
  /\ exited' = TRUE
  /\ UNCHANGED <<dts, shape, wpc, wi, ri, closed, rdrop, live, pending, fi, fic, np, cpc, got,
                 recvErr, errs, ret, disk, listed, hpc, exitEarly, ntfClosed>>

-----------------------------------------------------------------------------
(* SIGINT and the ctrlc handler thread                                       *)

Sigint ==
  /\ SIG /\ Alive /\ hpc = "idle"
  /\ hpc' = "start"
  /\ UNCHANGED <<dts, shape, wpc, wi, ri, closed, rdrop, live, pending, fi, fic, np, cpc, got,
                 recvErr, errs, ret, disk, listed, exitEarly, ntfClosed, exited>>

\* MAP_PATHID_CHANRECVDATUM.write(): waits for the coordinator's read guard
HLock ==
  /\ Alive /\ hpc = "start" /\ cpc # "sel"
  /\ hpc' = "clear"
  /\ UNCHANGED <<dts, shape, wpc, wi, ri, closed, rdrop, live, pending, fi, fic, np, cpc, got,
                 recvErr, errs, ret, disk, listed, exitEarly, ntfClosed, exited>>

\* map.clear(): every receiver is dropped
HClear ==
  /\ Alive /\ hpc = "clear"
  /\ live' = {}
  /\ hpc' = "ntf"
  /\ UNCHANGED <<dts, shape, wpc, wi, ri, closed, rdrop, pending, fi, fic, np, cpc, got,
                 recvErr, errs, ret, disk, listed, exitEarly, ntfClosed, exited>>

\* NAMED_TEMP_FILES.write(): waits for a worker that is between create and register
HNtfLock ==
  /\ Alive /\ hpc = "ntf" /\ ~WorkerHoldsNtf
  /\ hpc' = "remove"
  /\ UNCHANGED <<dts, shape, wpc, wi, ri, closed, rdrop, live, pending, fi, fic, np, cpc, got,
                 recvErr, errs, ret, disk, listed, exitEarly, ntfClosed, exited>>

\* the list is closed (REGATOMIC) and the listed files are removed
HRemove ==
  /\ Alive /\ hpc = "remove"
  /\ disk' = disk \ listed
  /\ ntfClosed' = REGATOMIC
  /\ hpc' = "flag"
  /\ UNCHANGED <<dts, shape, wpc, wi, ri, closed, rdrop, live, pending, fi, fic, np, cpc, got,
                 recvErr, errs, ret, listed, exitEarly, exited>>

HFlag ==
  /\ Alive /\ hpc = "flag"
  /\ exitEarly' = TRUE
  /\ hpc' = "done"
  /\ UNCHANGED <<dts, shape, wpc, wi, ri, closed, rdrop, live, pending, fi, fic, np, cpc, got,
                 recvErr, errs, ret, disk, listed, ntfClosed, exited>>

-----------------------------------------------------------------------------
Worker(w) == WCheck(w) \/ WCreate(w) \/ WCreateRefused(w) \/ WRegister(w) \/ WDrop(w) \/ WSend(w) \/ WReturn(w)
Coord == CExitEarly \/ CEnterSel \/ (\E w \in W : CDequeue(w) \/ CDisc(w)) \/ CNone
         \/ CProcess \/ CPrint \/ CPrintError \/ CAfter \/ CSweep \/ ProcExit
Handler == HLock \/ HClear \/ HNtfLock \/ HRemove \/ HFlag

Next == (\E w \in W : Worker(w)) \/ Coord \/ Sigint \/ Handler

Spec == /\ Init /\ [][Next]_vars
        /\ WF_vars(Coord)
        /\ WF_vars(Handler)
        /\ \A w \in W : WF_vars(Worker(w))

-----------------------------------------------------------------------------
(* Properties                                                                *)

Unfinished(w) == np[w] < NMsg(w)
TruthLess(w, v) ==
  MsgDt(w, np[w] + 1) < MsgDt(v, np[v] + 1)
  \/ (MsgDt(w, np[w] + 1) = MsgDt(v, np[v] + 1) /\ w < v)

\* C01: every print is, against the GROUND TRUTH (not the coordinator's own
\* map), the earliest next-unprinted message over all sources, ties to the
\* lower PathId; per-source FIFO is built into np.
PrintStep ==
  \A w \in W : np'[w] # np[w] =>
        /\ np'[w] = np[w] + 1
        /\ Unfinished(w)
        /\ \A v \in W \ {w} : Unfinished(v) => TruthLess(w, v)
PrintIsEarliest == [][PrintStep]_vars

NoSignal == hpc = "idle"

\* C06: without a signal the loop ends only when every message of every source
\* has been printed (with PrintIsEarliest: the output is the unique stable merge)
AllPrintedAtEnd == (cpc \in {"after", "done", "swept"} /\ NoSignal /\ ~EPIPE) => \A w \in W : np[w] = NMsg(w)

\* C06: the "nothing to poll" exit is unreachable in a fault-free run
NoneUnreachable == (cpc = "sel" /\ NoSignal) => Pollable # {}

\* C07: exit status reflects errors only
RetMeaning == (cpc = "done" /\ NoSignal) => (ret <=> \A w \in W : shape[w] = "ok")

PendingLive == NoSignal => PendSet \subseteq live
\* with failing writes the run still ends, and what was printed before is still in merge order (PrintIsEarliest holds
\* for the sources not yet disconnected: a disconnected source is simply no longer waited for)
ChanBound == \A w \in live : InChan(w) <= CAP /\ ri[w] <= wi[w]

\* C18: nothing is left on disk when the process is gone
NoLeak == exited => disk = {}
\* the three ways a file can survive, told apart (the driver runs each as its own invariant)
NoLeakNormal       == (exited /\ hpc = "idle") => disk = {}
NoLeakUnregistered == (exited /\ hpc # "idle") => disk \subseteq listed
NoLeakRegistered   == (exited /\ hpc # "idle") => disk \cap listed = {}

\* C06/C18 liveness
Terminates == <>[](cpc \in {"done", "swept"})
SigintLeadsToExit == (hpc = "start") ~> exited
Exits == <>exited
=============================================================================
