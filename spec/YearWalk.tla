------------------------------ MODULE YearWalk ------------------------------
(***************************************************************************)
(* C11.  Year-less timestamps.  A message carries only its position in the *)
(* year, md \in 0..YL-1 (abstract units; TH = the "25 hours" threshold in   *)
(* the same units).  Declarative rule (property statement): the last       *)
(* message lies in the year of the file's modification time; going up the  *)
(* file the year steps back by one exactly where the position jumps        *)
(* FORWARD by more than TH (December above January), so that time never    *)
(* runs backwards by more than TH from one message to the next.            *)
(* Machine = SyslogProcessor::process_missing_year: walk backwards from    *)
(* the last message; parse each message with the current year; if it then  *)
(* lies more than TH AFTER the message below it, decrement the year, forget*)
(* the parse and parse the same message again; stop early once a message   *)
(* lies before --dt-after.                                                 *)
(* TLC: machine = declarative on every sequence up to MaxN (ties, small    *)
(* backward jitter <= TH, 0..several wraps), and the messages at or after  *)
(* the stop point are all dated when --dt-after stops the walk early.      *)
(***************************************************************************)
EXTENDS Integers, Sequences, TLC

CONSTANTS YL, TH, MaxN, Y0

VARIABLES md, abs, A, i, year, yr, pc
vars == <<md, abs, A, i, year, yr, pc>>
N == Len(md)

\* abs[k][Y0 - y + 1] = the instant of message k when it is read with year y.  In the model-checking configuration
\* it is y * YL + md[k]; in trace validation (TraceYearWalk) it is the table of real calendar instants of the
\* rendered file, so that every statement below is evaluated on real dates.  (A 29 February read with a year that is
\* not a leap year is entered in the table under the latest leap year not after it -- the rule of fix 8494e782.)
NYears == MaxN + 2
Abs(k, y) == abs[k][Y0 - y + 1]
AbsModel(m) == [k \in 1..Len(m) |-> [j \in 1..NYears |-> (Y0 - j + 1) * YL + m[k]]]

\* declarative: the year steps back where, read in one and the same year, a message lies more than TH after the next one
RECURSIVE YearOf(_)
YearOf(k) == IF k = N THEN Y0
             ELSE IF Abs(k, Y0) > Abs(k + 1, Y0) + TH THEN YearOf(k + 1) - 1 ELSE YearOf(k + 1)
\* the input is admissible: under the declarative dating, time never runs backwards by more than TH
Admissible == \A k \in 1..N - 1 : Abs(k, YearOf(k)) <= Abs(k + 1, YearOf(k + 1)) + TH

Init == /\ md \in UNION {[1..n -> 0..(YL - 1)] : n \in 1..MaxN}
        /\ abs = AbsModel(md)
        /\ A \in {-1} \cup {y * YL + m : y \in (Y0 - 2)..Y0, m \in {0, YL \div 2}}
        /\ i = Len(md) /\ year = Y0 /\ yr = [k \in 1..Len(md) |-> 0] /\ pc = "walk"

\* one loop iteration of process_missing_year at message i (parsed with `year`)
Step ==
  /\ pc = "walk" /\ i >= 1
  /\ IF i < N /\ Abs(i, year) > Abs(i + 1, yr[i + 1]) + TH
     THEN \* apparent jump into the future: the year changed; forget this parse, try again one year earlier
          /\ year' = year - 1 /\ UNCHANGED <<i, yr, pc>>
     ELSE /\ yr' = [yr EXCEPT ![i] = year]
          /\ IF i = 1 THEN pc' = "done" /\ UNCHANGED <<i, year>>
             ELSE IF A # -1 /\ Abs(i, year) < A THEN pc' = "done" /\ UNCHANGED <<i, year>>
             ELSE i' = i - 1 /\ UNCHANGED <<year, pc>>
  /\ UNCHANGED <<md, abs, A>>
Next == Step
Spec == Init /\ [][Next]_vars /\ WF_vars(Step)

Correct == (pc = "done" /\ Admissible) => \A k \in i..N : yr[k] = YearOf(k)
\* with an early stop, everything at or after the stop point is dated, and everything the window can select is there
\* (for a chronological file; with backward jitter a message inside the window may sit above the stop point --
\*  TLC counterexample md = <<3, 2>>, A on the first message -- which is outside C03's chronological-source scope)
Chrono == \A k \in 1..N - 1 : Abs(k, YearOf(k)) <= Abs(k + 1, YearOf(k + 1))
WindowCovered == (pc = "done" /\ Chrono /\ A # -1) => \A k \in 1..N : Abs(k, YearOf(k)) >= A => k >= i
YearSane == year <= Y0 /\ year >= Y0 - MaxN
Terminates == <>(pc = "done")
=============================================================================
