#!/usr/bin/env python3
"""Print the prompt given to an independent sub-agent that seeds a property-breaking change (nothing from /verif besides the property text)."""
import json, sys
pid = sys.argv[1]; wt = sys.argv[2]
extra = sys.argv[3] if len(sys.argv) > 3 else ""
p = [json.loads(l) for l in open('/verif/properties.jsonl') if json.loads(l)['id'] == pid][0]
print(f"""You are testing how robust a verification effort is. You work ONLY inside the git worktree {wt} (a scratch checkout of the Rust project jtmoon79/super-speedy-syslog-searcher, CLI tool `s4`, library `s4lib`). Never touch /repo or /verif (do not read /verif either). No network is available; cargo must be run with --offline.

PROPERTY that the code is supposed to satisfy ({pid}: {p['title']}):
{p['statement']}
Scope of the property: {p['quantifier']['text']}

YOUR TASK: craft ONE realistic source change (a plausible bug a maintainer could introduce: an off-by-one, a wrong comparison, a reordered statement, a dropped special case, a cache/state mishandling, a race window, two cooperating sites that each look fine alone, ...) to the project's sources under {wt}/src that BREAKS this property, while
 (a) the project still compiles (`cargo build --offline --bin s4`), and
 (b) the existing test suite still passes exactly as before. Run it in the worktree with:
       cd {wt} && cargo nextest run --workspace --no-fail-fast --offline --test-threads 6 2>&1 | tail -80
     NOTE: in this sandbox 68 tests already fail WITHOUT any change (some sample log files are emptied); 3194 pass. Your change must not make any additional test fail (compare the list of failing tests before/after; do NOT use `git stash` (the stash is shared between worktrees): save your diff to a file and `git checkout -- .` instead, or trust that the unchanged tree has exactly 68 failures and diff names). A warm build cache is already in {wt}/target.
 (c) the breakage needs something specific to manifest: a particular thread interleaving or timing, a signal/crash/fault at a particular point, a multi-step sequence of operations, an unusual-but-legal input (particular sizes relative to the block size, ties, boundary values, particular option combinations, particular names), or two cooperating code sites. It must NOT be something any ordinary run exposes at once (e.g. not "all output is wrong"), and it must not be a change in a debug-only/trace-only path: it must affect release-mode user-visible behaviour covered by the property.
 (d) do not modify tests, Cargo.toml, or anything under `#[cfg(s4_verif)]` / src/verif.rs (those are inert instrumentation hooks; leave them).
{extra}
DELIVERABLES (all inside {wt}/_seed/):
 1. patch.diff  — `git diff` of your source change (sources only; must apply with `git apply` to a clean checkout of the same commit).
 2. A demonstration: a shell script demo.sh (may use python3, and may build the `s4` binary with `cargo build --offline --release --bin s4 --config profile.release.lto=false --config 'profile.release.codegen-units=16'` or a debug build, or a small Rust test/program) that takes the path of a checkout as $1, builds what it needs there, and exits 0 when the property holds for its scenario and non-zero when it is violated. It must FAIL (non-zero) with your change applied and PASS (0) without it. Make it deterministic if at all possible (if it depends on a race, make it loop enough to be reliable and say so). Use `TZ=UTC` and pass `-t +00:00` / `--color never` as appropriate so that results do not depend on the environment.
 3. README.md — which property, what the change does, what specific conditions it needs to manifest, why existing tests do not catch it, and the exact commands you ran with their observed results (test-suite summary before/after, demo.sh with/without the change).
Verify everything yourself before finishing: apply/revert the patch, run the suite, run demo.sh both ways. Leave the worktree with your change REVERTED (clean `git status` except the untracked _seed/ directory). Keep CPU use moderate (at most 6 parallel jobs: pass `-j 6` to cargo build). Final answer: a 10-line summary of the change, the trigger condition, and the verification results.""")
