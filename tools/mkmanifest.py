#!/usr/bin/env python3
"""Regenerate MANIFEST.json from the table below (single source of truth for the interface)."""
import json, os, subprocess
V = os.path.dirname(os.path.dirname(os.path.abspath(__file__)))
props = [json.loads(l) for l in open(os.path.join(V, "properties.jsonl"))]

CHECKS = {
 "C01": dict(engine="S4Run", category="model_checking", design_ref="DESIGN.md §6 C01",
   text="TLC checks PrintIsEarliest (against ground truth, with the tie rule) over all interleavings of N<=3 workers x M<=3 messages with the channel capacity read from the code; generated source sets (ties, sub-second, differing UTC offsets, compressed/archived forms, argument permutations) are run under seeded, held and TLC-planned schedules, stdout is compared with the stable merge of the generator's ground truth and every hook trace is validated against TraceS4Run.tla.",
   note="Exhaustive only within the model bounds; transfers to the code while traces are accepted by the trace specification; select() modelled as arbitrary choice among ready channels.",
   technique="TLA+ model checking (TLC) + trace validation + planned-schedule replay"),
 "C06": dict(engine="S4Run", category="model_checking", design_ref="DESIGN.md §6 C06",
   text="TLC checks that every behaviour ends (Terminates/Exits under weak fairness), that the loop ends only when all messages are printed and that the 'nothing to poll' exit is unreachable, for all interleavings incl. CAP=1 and channels filled to capacity; the same inputs are executed under many schedules (seeded delays, starved workers, held printer, TLC-simulated behaviours replayed through a turnstile) and must give byte-identical stdout equal to the specification's merge, within a time bound.",
   note="Liveness is checked on the model under weak fairness of each thread; on the code a hang is a run exceeding a generous wall-clock bound.",
   technique="TLA+ model checking (TLC, liveness) + schedule replay + trace validation"),
 "C18": dict(engine="S4Run", category="model_checking", design_ref="DESIGN.md §6 C18",
   text="TLC enumerates every placement of SIGINT relative to every worker/coordinator/handler action for 1..3 concurrently extracted sources (invariants NoLeakNormal/NoLeakUnregistered/NoLeakRegistered, liveness SIGINT leads to exit), with the design parameters DROPFIRST (measured from a recorded trace) and REGATOMIC (scanned from decompress_to_ntf) taken from the code; on the real binary SIGINT is raised at the k-th passage of every hook point of every thread (with and without holding the raising thread), at externally swept times, and in turnstile-planned adversarial orders taken from the model's counterexample classes; the oracle is the private TMPDIR after exit, the exit latency and status.",
   note="A VIOLATION is raised only from an observed leftover file / hang / bad status of the real binary; a model violation under scanned parameters is a prediction that must be reproduced (else DRIFT). One SIGINT per run. Promptness bound 5 s.",
   technique="TLA+ model checking (TLC) of signal placements + fault enumeration over hook points + turnstile replay"),
 "C02": dict(engine="TextLog", category="model_checking", design_ref="DESIGN.md §6 C02",
   text="TLC checks on every abstract file (dated/undated line sequences, with/without final newline) that the messages tile the file from the first timestamped line to its end, and enumerates the public find_line/find_sysline call sequences modulo the abstract cache state (one shortest sequence per reachable cache state, every call appended: a transition cover) with the result the specification prescribes; each is replayed in-process on the real LineReader/SyslineReader over concrete byte layouts (NUL, 0xFF, CR, blank lines) at block sizes 1..32 and larger, comparing offsets and bytes; end-to-end, files with line lengths chosen relative to the block size (B-1, B, B+1, 2B+-1, >2056-byte parts, many blocks, CRLF, missing final newline) go through the real binary in plain/gz/bz2/xz/tar form and stdout must equal Printed(file) byte for byte.",
   note="find_sysline at an offset inside a continuation line is specified as a relation (containing or next message); continuation lines never parse as timestamps; block-zero rejections are the recorded finding blockzero-reject (classified by spec/BlockZero.tla evaluated with TLC plus the program's own Stage1 verdict).",
   technique="TLA+ spec + TLC-generated call-sequence cover replayed on the real readers + e2e byte oracle"),
 "C12": dict(engine="TextLog", category="model_checking", design_ref="DESIGN.md §6 C12",
   text="Printed(file) in TextLog.tla does not mention the block size; the same TLC-generated call sequences and generated files as C02 are executed at every block size class (in-process 1..32, size+-1, 64, 4096; end-to-end 64, 65, 127..129, line length +-1, file size +-1, 8096/8097, 65536, 0xFFFFFF) and compared with the B-free oracle, never with 'the default run'. BlockZero.tla gives the one place where the design itself depends on B; TLC evaluates it on every instance and its verdict is compared with the code's Stage1 decision.",
   note="Known finding blockzero-reject (acceptance heuristic looks only inside block zero) is reported as KNOWN-FINDING for exactly the instances where both BlockZero.tla predicts rejection and the program reports a Stage1 rejection.",
   technique="TLA+ spec (B-free oracle + BlockZero transcription evaluated by TLC) + replay at every block-size class"),
 "C03": dict(engine="BinSearch", category="model_checking", design_ref="DESIGN.md §6 C03",
   text="BinSearch.tla transcribes the datetime binary search (fo_a/fo_b/try_fo loop, early return, Done branch, final same-offset disambiguation) and the stage-3 window walk; TLC checks for every chronological file (ties, multi-line messages) and every filter placement that the search terminates and returns FirstAtOrAfter(A) and that the walk emits exactly {m : A <= t <= B}. The real search's Probe events are validated against the transcription (TraceBinSearch.tla); generated files with tie groups and sub-second instants are run with windows before/between/exactly on/after instants and A = B at many block sizes, plain (binary search) and streamed (linear), in-process and through -a/-b, against the declarative Select.",
   note="Text sources chronological; messages >= 2 bytes; find_sysline answers 'containing message' (measured; the search is not robust to the other answer, see BinSearch.tla). Record files, evtx and journals get their windows in C08/C10/C09.",
   technique="TLA+ transcription checked by TLC against a declarative oracle + probe-trace validation + windowed replay"),
 "C08": dict(engine="Ordered", category="model_checking", design_ref="DESIGN.md §6 C08",
   text="Ordered.tla states the emission of a record file declaratively (non-null records inside the window, sorted by (time, file offset)) and as the code-shaped machine (BTreeMap built in file order, walked and emptied in key order) with the map key as a design parameter measured on the real reader; TLC checks machine = declaration for every record sequence (duplicates, nulls, any order) and every window, and every one of those instances is rendered as a real Linux utmp file with distinctive fields per record, stored plain/gz/bz2/xz/lz4/tar, and run through the binary at a drawn block size; stdout is parsed back to records (count, order, own fields only, no stray bytes).",
   note="Linux x86_64 struct utmp synthesised from the C layout; other platform layouts only via the repository's sample files (C05/C07). Known finding nul-after-record.",
   technique="TLA+ model checking (TLC) + exhaustive instance replay on the real binary"),
 "C10": dict(engine="Ordered", category="model_checking", design_ref="DESIGN.md §6 C10",
   text="Ordered.tla (Evtx machine: insert under (time, index), pop first) is checked by TLC against the declarative sort for all small multisets with ties and all windows; on the code the printed EventRecordID sequence must equal the sort of an independent dump (evtx crate) for no window and for windows exactly on / 1 microsecond around actual record times, for the plain file and its compressed forms; Print traces are validated against TraceS4Run.tla.",
   note="One non-empty .evtx file exists offline (227 records, one inversion, no ties): ties are decided by the model only.",
   technique="TLA+ model checking (TLC) + differential replay against an independent dump + trace validation"),
 "C09": dict(engine="Ordered", category="model_checking", design_ref="DESIGN.md §6 C09",
   text="Ordered.tla (Journal machine: seek to first t >= A, next() until the first entry beyond B, with the upper-bound mode measured on the real reader) is checked by TLC against the declarative inclusive window for all monotone sequences with ties and all bounds; on the code, for every one of the ten renderings, the Print events (entry instants in order) must equal `journalctl --file -o json` restricted to the window, with bounds before / exactly on / 1 microsecond around actual entry times and A = B, for plain and compressed journals and several --tz-offset values; `cat` output is compared byte-wise and `export` field-wise (binary-safe) with journalctl.",
   note="journalctl/libsystemd of the sandbox is the independent reader; rendering fidelity (export/cat) is differential testing, the model decides order and window only; _BOOT_ID header field of newer journalctl not required.",
   technique="TLA+ model checking (TLC) + differential replay against journalctl"),
 "C05": dict(engine="Stream", category="model_checking", design_ref="DESIGN.md §6 C05",
   text="Stream.tla models block assembly from decoder chunks of arbitrary sizes with the look-behind drop; TLC checks for all chunkings, sizes and legal request sequences that every stored/answered block holds exactly its byte range, nothing is lost or duplicated, and a legal caller never needs a dropped block. On the code, BlockReader::read_block over real gz/bz2/xz/lz4 containers (levels, header fields, multi-block bz2, lz4 block sizes/linked/checksums) must return the plain slices at every block-size class and the size learned up front must equal the decoded size; end-to-end the stdout of every stored form (incl. tar ustar/gnu/pax with 1..4 members) must equal the plain file's for text and accounting records with/without a window at several --blocksz, and for the shipped evtx/journal forms.",
   note="Single-stream files only; compressor parameters limited to python gzip/bz2/lzma/tarfile and lz4_flex; one evtx file and the shipped journals.",
   technique="TLA+ model checking (TLC) of chunk assembly + slice-exact replay on real containers + plain-vs-stored differential runs"),
 "C07": dict(engine="S4Run", category="fault_enumeration", design_ref="DESIGN.md §6 C07",
   text="S4Run.tla with faulty script shapes (FileInfo error, mid-stream error) for 1..2 of N<=3 sources is checked by TLC for isolation of the healthy sources, termination and the meaning of the exit status. Crash-freedom is decided by executing enumerated faults on the real binary: valid base files of every kind and container (text plain/gz/bz2/xz/lz4/tar, utmp, lastlog, acct, NetBSD utmpx, FreeBSD utx, evtx, journal and compressed forms) are truncated at stratified/every position, corrupted by single and multi-byte changes per offset class (with the leading fields of the first records always included), replaced by random/zero strings of assorted lengths, and presented under every mismatching name, alone and next to 1..3 valid sources; exit status in {0,1}, no panic/abort/signal, wall-clock bound, valid sources' lines all printed in order, no temp file left.",
   note="The model decides isolation/termination; crash-freedom is by execution over the enumerated faults only. Valid neighbours are text logs with attributable lines.",
   technique="TLA+ model checking of fault shapes + fault enumeration on the real binary"),
 "C15": dict(engine="Walk", category="model_checking", design_ref="DESIGN.md §6 C15",
   text="Walk.tla defines Expand(dir) (regular files beneath the root, one symbolic link to a file or directory followed, known non-log types dropped, component-wise sorted order) and the argv/stdin splice; TLC enumerates every tree up to MaxNodes nodes over ordered names and checks Expand is the sorted duplicate-free listing. Each tree is materialised (names with spaces and non-ASCII characters, log / compressed / non-log / empty-directory leaves) with equal-instant messages so that print order = PathId order, and `s4 DIR`, `s4 <Expand(DIR)>`, two random splits of the list between arguments and stdin, DIR on stdin, and all files named explicitly (non-log ones must then be attempted) are compared byte for byte with the expansion the specification prescribes; a .tar inside a walked directory must expand like the same .tar named explicitly.",
   note="Depth <= 2, at most one symlink; name order = byte order of the chosen names.",
   technique="TLA+ function module enumerated by TLC + materialised-tree replay on the real binary"),
 "C16": dict(engine="Classify", category="model_checking", design_ref="DESIGN.md §6 C16",
   text="Classify.tla (written from the documented rules) gives the reader and container of a name read from the right; TLC enumerates every name up to MaxC components over a vocabulary covering each class, checks the invariance lemmas (inserting numeric/unrecognised components after the stem, appending a compression suffix) and emits every name with its class; each is rendered in several spellings (case variants, junk prefixes/suffixes, class-preserving word substitution over the full word lists) and passed to the real path_to_filetype in both modes; arbitrary byte strings (dots only, empty stem, 4 KiB, non-UTF-8) must classify without panic or hang; renamed real files must produce the corresponding output end-to-end.",
   note="Names with several compression suffixes and bare stems evtx/txt/tar/<compression>/<non-log>/<number> are outside the documented rules. Known finding leading-double-dot.",
   technique="TLA+ function module enumerated by TLC + exhaustive replay on the real classifier"),
 "C17": dict(engine="Stream3", category="model_checking", design_ref="DESIGN.md §6 C17",
   text="Stream3.tla transcribes the stage-3 release rules (drop_data_try distance, drop of all line parts but the last, the block-aligned case as a design parameter measured on the real reader); TLC checks for every small file, including lines ending exactly on a block end, that the held-block high-water mark stays under 4 x (largest message span) + c whatever the number of lines. On the code, logs of 10/100/1000/4000-10000 blocks with five line-length distributions, plain/gz/bz2/lz4, several --blocksz, with and without a window, are printed with --summary; blocks/lines/syslines high must stay under the model's bound and must not scale with the size (log2 allowance for the windowed plain case).",
   note="Memory = the program's own high-water marks; retention caused by printing lag is bounded by the channel, tolerated by the thresholds.",
   technique="TLA+ model checking (TLC) of release rules + size-decade measurement of the real high-water marks"),
 "C11": dict(engine="YearWalk", category="model_checking", design_ref="DESIGN.md §6 C11",
   text="YearWalk.tla transcribes process_missing_year (backward walk, decrement-and-reparse on an apparent jump of more than 25 h into the future, early stop at --dt-after) and states the dating declaratively; TLC checks walk = declaration, termination and coverage of the window on all sequences with ties, backward jitter and several wraps. On the code, rendered `Mon DD HH:MM:SS` logs spanning 0..5 year boundaries (gaps under 300 days, jitter under a day), with the modification time on the plain file / in the gzip header / in the tar member (decoy container mtime), five --tz-offset zones incl. mtimes at the end of the year in the zone, windows in absolute dates, several block sizes, and two-file merges across a New Year are dated by the binary (-u -d) and compared with the true instants.",
   note="Gaps between consecutive messages under one year; Issue #245 (29 February followed by a later-year message) excluded as documented; windows only on chronological series.",
   technique="TLA+ transcription checked by TLC against a declarative oracle + rendered-calendar replay"),
}
NA_REASON = "check not built yet in this session (work in progress; will be claimed when its machinery exists)"

checks = []
for p in props:
    c = CHECKS.get(p["id"])
    if not c: continue
    checks.append({
      "property_id": p["id"],
      "quick_cmd": "./check %s --tier quick" % p["id"],
      "thorough_cmd": "./check %s --tier thorough" % p["id"],
      "evidence_file": "evidence/%s.json" % p["id"],
      "replay_cmd_template": "./check %s --replay {path}" % p["id"],
      "engine": c["engine"],
      "level_claimed": {"category": c["category"], "text": c["text"], "design_ref": c["design_ref"]},
      "level_note": c["note"],
      "technique": c["technique"],
    })
hooks = subprocess.run(["git", "-C", "/repo", "log", "--format=%H %s", "--grep", "^verif hooks"], stdout=subprocess.PIPE, text=True).stdout.split("\n")
manifest = {
 "version": 1,
 "setup_cmd": "./setup.sh",
 "hooks": {"guard": "s4_verif", "enable": "RUSTFLAGS='--cfg s4_verif --check-cfg cfg(s4_verif)' cargo build --offline --release --bin s4 (done by ./check, target dir /verif/target/s4); harness/.cargo/config.toml sets the same rustflags",
           "baseline_off_cmd": "python3 /verif/tools/baseline.py /repo",
           "source_commits": [h.split(" ")[0] for h in hooks if h.strip()],
           "add_only": True},
 "engines": [
   {"name": "TextLog", "path": "spec/TextLog.tla", "serves_properties": ["C02", "C12", "C03", "C17", "C11"], "kind_free_text": "TLA+ specification of lines/messages/reader API; BlockZero.tla transcribes the block-zero acceptance"},
   {"name": "Walk", "path": "spec/Walk.tla", "serves_properties": ["C15"], "kind_free_text": "directory expansion order / filtering / stdin splice"},
   {"name": "Classify", "path": "spec/Classify.tla", "serves_properties": ["C16"], "kind_free_text": "name -> reader/container"},
   {"name": "YearWalk", "path": "spec/YearWalk.tla", "serves_properties": ["C11"], "kind_free_text": "year inference for year-less timestamps"},
   {"name": "Stream3", "path": "spec/Stream3.tla", "serves_properties": ["C17"], "kind_free_text": "stage-3 release rules / retained-set bound"},
   {"name": "Stream", "path": "spec/Stream.tla", "serves_properties": ["C05"], "kind_free_text": "decoder chunk assembly / look-behind drop"},
   {"name": "Ordered", "path": "spec/Ordered.tla", "serves_properties": ["C08", "C09", "C10", "C03"], "kind_free_text": "collect / window / key-ordered emission for record files, evtx, journal"},
   {"name": "BinSearch", "path": "spec/BinSearch.tla", "serves_properties": ["C03"], "kind_free_text": "transcription of the datetime binary search + window walk; TraceBinSearch.tla validates Probe traces"},
   {"name": "S4Run", "path": "spec/S4Run.tla", "serves_properties": ["C01", "C06", "C07", "C18", "C19"], "kind_free_text": "TLA+ specification of workers/channels/coordinator/signal handler/temp files; TraceS4Run.tla validates hook traces; SimS4Run.tla emits behaviours for replay"},
 ],
 "checks": checks,
 "not_applicable": [{"property_id": p["id"], "reason": NA_REASON} for p in props if p["id"] not in CHECKS],
 "notes": "Driver: ./check <id> --tier quick|thorough [--seed N] [--replay PATH]. Exit 2 = tool error. Known findings: KNOWN_FINDINGS.json.",
}
json.dump(manifest, open(os.path.join(V, "MANIFEST.json"), "w"), indent=1)
print("checks:", [c["property_id"] for c in checks])
