#!/usr/bin/env python3
"""Demonstration that the trace bindings bite (DESIGN 4.3).

For every trace specification a trace is recorded from the REAL hooked binary / harness, validated (must be accepted),
then corrupted in one field at a time (a swapped pair of events, a changed instant, a dropped event, a wrong offset ...)
and validated again: every corruption must be rejected (unmatched event or violated invariant / action property).
Writes BINDING_SELFTEST.json and exits 0 iff every good trace was accepted and every corrupted one rejected.
Usage: tools/binding_selftest.py"""
import calendar
import copy
import json
import os
import subprocess
import sys
import time

sys.path.insert(0, os.path.dirname(os.path.dirname(os.path.abspath(__file__))))
from vlib import common, gen, runmodel          # noqa: E402
from vlib.common import Scratch, tlc, write_cfg  # noqa: E402


def verdict(tr):
    if tr.ok:
        return "accepted"
    return "rejected:%s" % (tr.violated or "error")


def run_generic(module, cfg_consts, recs, workdir, tag, invariants=(), properties=(), spec="TSpec"):
    os.makedirs(workdir, exist_ok=True)
    tp = os.path.join(workdir, "%s.ndjson" % tag)
    with open(tp, "w") as f:
        for r in recs:
            f.write(json.dumps(r) + "\n")
    cfg = write_cfg(tp + ".cfg", cfg_consts, spec=spec, invariants=list(invariants), properties=list(properties),
                    constraint="Progress", postcondition="Accepted")
    return tlc(module, cfg, workdir, workers=1, timeout=600, env={"TRACE": tp}, deque=True, java_opts="-Xmx3g")


def s4run_part(sc, out):
    d = os.path.join(sc, "s4run")
    os.makedirs(d)
    srcs = []
    for w, letter in enumerate("AB"):
        blob, msgs = gen.text_source(letter, [(gen.BASE + 2 * i + w, 0) for i in range(4)], frac=0, pad=10)
        with open(os.path.join(d, "%s.log" % letter), "wb") as f:
            f.write(blob)
        srcs.append(msgs)
    rr = common.run_s4(["--color", "never", "-s", "A.log", "B.log"], cwd=d, trace=True, timeout=60)
    ranks = runmodel.rank_table([(m.sec, m.nanos) for s_ in srcs for m in s_])
    dts = [[ranks[(m.sec, m.nanos)] for m in s_] for s_ in srcs]
    good = [runmodel.reset_record(dts, ["ok", "ok"])] + runmodel.annotate(rr.trace, ranks)

    def val(recs, tag):
        ok, first, tr = runmodel.validate(os.path.join(sc, "tv_s4run"), recs, timeout=300)
        return "accepted" if ok else "rejected:%s@%s" % (tr.violated or "unmatched", first)
    res = {"good": val(good, "good"), "events": len(good), "corruptions": {}}
    prints = [i for i, e in enumerate(good) if e["ev"] == "Print"]
    c = copy.deepcopy(good)
    i, j = prints[0], prints[1]
    c[i], c[j] = c[j], c[i]
    res["corruptions"]["two Print events swapped"] = val(c, "c1")
    c = copy.deepcopy(good)
    c[prints[1]]["d"] = c[prints[1]]["d"] + 1
    res["corruptions"]["instant rank of a Print changed"] = val(c, "c2")
    c = copy.deepcopy(good)
    k = next(i for i, e in enumerate(c) if e["ev"] == "Recv" and e.get("k") == 1)
    del c[k]
    res["corruptions"]["a Recv event dropped"] = val(c, "c3")
    c = copy.deepcopy(good)
    k = next(i for i, e in enumerate(c) if e["ev"] == "Print")
    c[k]["w"] = 1 - c[k]["w"]
    res["corruptions"]["source of a Print changed"] = val(c, "c4")
    c = copy.deepcopy(good)
    k = next(i for i, e in enumerate(c) if e["ev"] == "Totals")
    c[k]["bytes"] += 1
    res["corruptions"]["Totals.bytes + 1"] = val(c, "c5")
    c = copy.deepcopy(good)
    k = next(i for i, e in enumerate(c) if e["ev"] == "SendStart" and e.get("k") == 1)
    c[k]["i"] += 1
    res["corruptions"]["ordinal of a SendStart changed"] = val(c, "c6")
    out["TraceS4Run"] = res


def yearwalk_part(sc, out):
    d = os.path.join(sc, "yw")
    os.makedirs(d)
    locs = [calendar.timegm(x + (0, 0, 0)) for x in [(2022, 12, 30, 10, 0, 0), (2022, 12, 31, 23, 0, 0), (2023, 1, 1, 0, 10, 0), (2023, 1, 2, 0, 10, 0)]]
    mon = ["Jan", "Feb", "Mar", "Apr", "May", "Jun", "Jul", "Aug", "Sep", "Oct", "Nov", "Dec"]
    lines = []
    for i, x in enumerate(locs):
        t = time.gmtime(x)
        lines.append(("%s %2d %02d:%02d:%02d host p: idx=%d\n" % (mon[t.tm_mon - 1], t.tm_mday, t.tm_hour, t.tm_min, t.tm_sec, i)).encode())
    p = os.path.join(d, "y.log")
    with open(p, "wb") as f:
        f.write(b"".join(lines))
    os.utime(p, (locs[-1] + 60, locs[-1] + 60))
    rr = common.run_s4(["--color", "never", "y.log"], cwd=d, trace=True, timeout=60)
    evs = [e for e in rr.trace if e["ev"].startswith("Yw")]
    y0 = 2023
    tab = []
    for x in locs:
        t = time.gmtime(x)
        tab.append([calendar.timegm((y0 - j, t.tm_mon, t.tm_mday, t.tm_hour, t.tm_min, t.tm_sec, 0, 0, 0)) for j in range(5)])
    fos = [sum(len(l) for l in lines[:j]) for j in range(len(lines))]
    good = [{"ev": "Reset", "n": len(locs), "fos": fos, "abs": tab, "A": -1, "year": 0, "fo": 0, "ds": 0, "why": 0}]
    for e in evs:
        good.append({"ev": e["ev"], "n": 0, "fos": [], "abs": [], "A": 0, "year": (e["year"] - y0) if "year" in e else 0, "fo": e.get("fo", 0),
                     "ds": e.get("ds", 0), "why": e.get("why", 0)})
    consts = {"YL": 1, "TH": 25 * 3600, "MaxN": 64, "Y0": 0}
    val = lambda recs, tag: verdict(run_generic("TraceYearWalk", consts, recs, os.path.join(sc, "tv_yw"), tag, invariants=["TraceInv"]))
    res = {"good": val(good, "good"), "events": len(good), "corruptions": {}}
    c = copy.deepcopy(good)
    k = next(i for i, e in enumerate(c) if e["ev"] == "YwRetry")
    del c[k]
    res["corruptions"]["the YwRetry step dropped"] = val(c, "c1")
    c = copy.deepcopy(good)
    k = max(i for i, e in enumerate(c) if e["ev"] == "YwAccept")
    c[k]["year"] += 1
    res["corruptions"]["year of the last YwAccept + 1"] = val(c, "c2")
    c = copy.deepcopy(good)
    k = next(i for i, e in enumerate(c) if e["ev"] == "YwAccept")
    c[k]["ds"] += 1
    res["corruptions"]["instant of a YwAccept + 1 s"] = val(c, "c3")
    c = copy.deepcopy(good)
    k = next(i for i, e in enumerate(c) if e["ev"] == "YwAccept")
    c[k]["fo"] += 1
    res["corruptions"]["message offset of a YwAccept + 1"] = val(c, "c4")
    c = copy.deepcopy(good)
    c[0]["abs"][1] = [x + 400 * 86400 for x in c[0]["abs"][1]]   # the table says message 2 lies a year later: Correct must fail
    res["corruptions"]["calendar table of message 2 shifted by 400 days"] = val(c, "c5")
    out["TraceYearWalk"] = res


def ordered_part(sc, out):
    d = os.path.join(sc, "ord")
    os.makedirs(d)
    inst = [(gen.BASE + 30, 0), (gen.BASE + 10, 0), (gen.BASE + 20, 5000), (gen.BASE + 10, 0)]
    with open(os.path.join(d, "wtmp"), "wb") as f:
        f.write(b"".join(gen.utmp_record(7, 1000 + i, b"pts/%d" % i, b"t%d" % i, b"u%d" % i, b"h%d" % i, s_, n_ // 1000) for i, (s_, n_) in enumerate(inst)))
    rr = common.run_s4(["--color", "never", "wtmp"], cwd=d, trace=True, timeout=60)
    evs = [e for e in rr.trace if e["ev"] in ("FsBegin", "FsInsert", "FsAt")]
    ranks = {k_: j + 1 for j, k_ in enumerate(sorted({(e["ts"], e["tu"]) for e in evs if e["ev"] == "FsInsert"}))}
    good = [{"ev": e["ev"], "fo": e.get("fo", 0), "r": ranks.get((e.get("ts"), e.get("tu")), 0), "next": e.get("next", 0), "left": e.get("left", 0),
             "size": e.get("size", 0)} for e in evs]
    consts = {"MaxN": 1, "Times": {1}, "KEY": "time_fo", "JBEFORE": "inclusive"}
    val = lambda recs, tag: verdict(run_generic("TraceOrdered", consts, recs, os.path.join(sc, "tv_ord"), tag))
    res = {"good": val(good, "good"), "events": len(good), "corruptions": {}}
    ats = [i for i, e in enumerate(good) if e["ev"] == "FsAt"]
    c = copy.deepcopy(good)
    c[ats[0]], c[ats[1]] = c[ats[1]], c[ats[0]]
    res["corruptions"]["two FsAt visits swapped"] = val(c, "c1")
    c = copy.deepcopy(good)
    c[ats[0]]["next"] = c[ats[0]]["fo"] + 384
    res["corruptions"]["`next` of the first visit = physically next slot"] = val(c, "c2")
    c = copy.deepcopy(good)
    ins = [i for i, e in enumerate(good) if e["ev"] == "FsInsert"]
    c[ins[0]], c[ins[1]] = c[ins[1]], c[ins[0]]
    res["corruptions"]["two FsInsert swapped (not file order)"] = val(c, "c3")
    c = copy.deepcopy(good)
    c[ats[-1]]["left"] += 1
    res["corruptions"]["`left` of the last visit + 1"] = val(c, "c4")
    out["TraceOrdered"] = res


def stream_part(sc, out):
    common.build_harness(["reader_replay"])
    exe = common.harness_bin("reader_replay")
    d = os.path.join(sc, "stream")
    os.makedirs(d)
    blob, _ = gen.text_source("S", [(gen.BASE + i, 0) for i in range(12)], frac=0, pad=30)
    with open(os.path.join(d, "s.log.gz"), "wb") as f:
        f.write(gen.gz_bytes(blob))
    B = 100
    nb = (len(blob) + B - 1) // B
    inst = {"id": 0, "path": os.path.join(d, "s.log.gz"), "blocksz": B, "reader": "block", "calls": [["block", bo] for bo in range(nb + 1)]}
    env = dict(os.environ)
    tpath = os.path.join(d, "t.ndjson")
    env["S4_VERIF_TRACE"] = tpath
    subprocess.run([exe], input=(json.dumps(inst) + "\n").encode(), stdout=subprocess.PIPE, stderr=subprocess.PIPE, timeout=120, env=env)
    evs = [json.loads(l) for l in open(tpath)]
    good = [{"ev": "Reset", "filesz": len(blob), "B": B}] + [{k: e[k] for k in e if k not in ("seq", "t")} for e in evs
                                                            if e["ev"] in ("ReadBlock", "Store", "DropBlock")]
    val = lambda recs, tag: verdict(run_generic("TraceStream", {}, recs, os.path.join(sc, "tv_st"), tag, spec="Spec"))
    res = {"good": val(good, "good"), "events": len(good), "corruptions": {}}
    st = [i for i, e in enumerate(good) if e["ev"] == "Store"]
    c = copy.deepcopy(good)
    c[st[1]]["len"] -= 1
    res["corruptions"]["length of a stored block - 1"] = val(c, "c1")
    c = copy.deepcopy(good)
    c[st[1]]["bo"] += 1
    res["corruptions"]["a block stored under the next offset (one skipped)"] = val(c, "c2")
    c = copy.deepcopy(good)
    del c[st[0]]
    res["corruptions"]["a Store event dropped"] = val(c, "c3")
    out["TraceStream"] = res


def main():
    common.build_s4()
    out = {}
    with Scratch("selftest") as sc:
        for part in (s4run_part, yearwalk_part, ordered_part, stream_part):
            try:
                part(sc, out)
            except Exception as ex:          # a part that cannot run is reported, not hidden
                out[part.__name__] = {"error": repr(ex)}
    bad = []
    for mod, r in out.items():
        if "error" in r:
            bad.append("%s: %s" % (mod, r["error"]))
            continue
        if r["good"] != "accepted":
            bad.append("%s: the recorded trace was %s" % (mod, r["good"]))
        for what, v in r["corruptions"].items():
            if v == "accepted":
                bad.append("%s: corruption not rejected: %s" % (mod, what))
    out["_summary"] = {"ok": not bad, "problems": bad, "when": time.strftime("%Y-%m-%dT%H:%M:%SZ", time.gmtime())}
    with open(os.path.join(common.VERIF, "BINDING_SELFTEST.json"), "w") as f:
        json.dump(out, f, indent=1)
    for mod, r in out.items():
        if mod.startswith("_") or "error" in r:
            continue
        print("%s: recorded trace (%d events) %s" % (mod, r["events"], r["good"]))
        for what, v in r["corruptions"].items():
            print("   %-60s %s" % (what, v))
    for b in bad:
        print("PROBLEM " + b)
    return 0 if not bad else 2


if __name__ == "__main__":
    sys.exit(main())
