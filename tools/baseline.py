#!/usr/bin/env python3
"""Run the repository's pinned test suite (guard OFF) in a repo directory and compare with /root/.vp/BASELINE.json.

usage: baseline.py [REPO_DIR] [--target-dir DIR] [--jobs N]
exit 0: every test in BASELINE.stable_pass passed; exit 1 otherwise (lists the regressions).
"""
import argparse, json, os, subprocess, sys, xml.etree.ElementTree as ET

def main():
    ap = argparse.ArgumentParser()
    ap.add_argument("repo", nargs="?", default="/repo")
    ap.add_argument("--target-dir", default=None)
    ap.add_argument("--jobs", type=int, default=8)
    a = ap.parse_args()
    base = json.load(open("/root/.vp/BASELINE.json"))
    env = dict(os.environ)
    env.pop("RUSTFLAGS", None)
    env["CARGO_NET_OFFLINE"] = "true"
    tdir = a.target_dir or os.path.join(a.repo, "target")
    env["CARGO_TARGET_DIR"] = tdir
    junit = os.path.join(tdir, "nextest", "pb", "junit.xml")
    if os.path.exists(junit):
        os.remove(junit)
    cmd = ["cargo", "nextest", "run", "--workspace", "--no-fail-fast", "--tool-config-file", "pb:/w/lib/nextest.toml",
           "--profile", "pb", "--test-threads", str(a.jobs), "--offline"]
    p = subprocess.run(cmd, cwd=a.repo, env=env, stdout=subprocess.PIPE, stderr=subprocess.STDOUT, text=True)
    if not os.path.exists(junit):
        print(p.stdout[-4000:])
        print("BASELINE: no junit produced (build failure?)")
        return 2
    passed, failed = set(), set()
    for tc in ET.parse(junit).getroot().iter("testcase"):
        tid = (tc.get("classname") or "") + "::" + (tc.get("name") or "")
        if tc.find("failure") is not None or tc.find("error") is not None or tc.find("flakyFailure") is not None:
            failed.add(tid)
        elif tc.find("skipped") is None:
            passed.add(tid)
    passed -= failed
    want = set(base["stable_pass"])
    missing = sorted(want - passed)
    print("BASELINE: passed=%d failed=%d stable_pass=%d regressions=%d" % (len(passed), len(failed), len(want), len(missing)))
    for m in missing[:40]:
        print("  REGRESSION", m)
    return 0 if not missing else 1

if __name__ == "__main__":
    sys.exit(main())
