#!/bin/sh
# usage: confirm_seed.sh <worktree> <seed_src_dir> <dest_id>
# Confirms a seeded change: applies patch, runs the pinned suite (guard off), runs the demo with and without the change.
WT=$1; SRC=$2; ID=$3
OUT=/verif/seeded/$ID
mkdir -p $OUT
rsync -a --max-size=300k --exclude scratch --exclude "*.log" --exclude target $SRC/ $OUT/ 2>/dev/null
cp $SRC/README.md $OUT/README.agent.md 2>/dev/null
cd $WT || exit 2
git checkout -q -- . 
git apply --check $OUT/patch.diff || { echo "PATCH DOES NOT APPLY"; exit 2; }
bash $OUT/demo.sh $WT > $OUT/demo_without.log 2>&1; R0=$?
git apply $OUT/patch.diff
python3 /verif/tools/baseline.py $WT --jobs 6 > $OUT/suite_with.log 2>&1; RS=$?
bash $OUT/demo.sh $WT > $OUT/demo_with.log 2>&1; R1=$?
git checkout -q -- .
echo "seed=$ID demo_without=$R0 suite_with=$RS demo_with=$R1" | tee $OUT/confirm.txt
tail -2 $OUT/suite_with.log
