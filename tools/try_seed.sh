#!/bin/sh
# usage: try_seed.sh <patch> <check id> [tier] -- applies a seeded patch to /repo, runs the check, reverts.
P=$1; ID=$2; TIER=${3:-quick}
cd /repo && git diff --quiet || { echo "/repo not clean"; exit 2; }
git -C /repo apply $P || exit 2
cd /verif && ./check $ID --tier $TIER > /tmp/try_seed.out 2>&1; RC=$?
git -C /repo checkout -- .
# (leave a binary of the restored tree behind, not the mutated one)
(cd /verif && python3 -c "import sys; sys.path.insert(0, '/verif'); from vlib import common; common.build_s4()" > /dev/null 2>&1)
echo "try_seed: check=$ID patch=$P rc=$RC violations=$(grep -c '^VIOLATION' /tmp/try_seed.out) drift=$(grep -c '^DRIFT' /tmp/try_seed.out) known=$(grep -c '^KNOWN' /tmp/try_seed.out)"
grep -A1 '^VIOLATION' /tmp/try_seed.out | head -${TAILN:-6}
grep 'TOOL-ERROR' /tmp/try_seed.out | head -3
